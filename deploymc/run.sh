#!/bin/bash
# /verif/deploymc/run.sh C13 quick|thorough     schedule/crash exploration of deploy.Deploy + helper grids
# /verif/deploymc/run.sh replay <file>          re-run one recorded schedule
set -u
HERE=$(cd "$(dirname "$0")" && pwd)
VERIF=$(dirname "$HERE")
export GOFLAGS=-mod=mod GOPROXY=off GOSUMDB=off GOTOOLCHAIN=local
export VERIF_REPO=${VERIF_REPO:-/repo}
GO=go1.26.8
mkdir -p "$VERIF/bin" "$VERIF/evidence" "$VERIF/replays"
WORK=$(mktemp -d /var/tmp/verif-c13-XXXXXX)
trap 'rm -rf "$WORK"' EXIT
export TMPDIR=$WORK

build() {
	# module file and test binary are private to this invocation
	sed "s|=> /repo\$|=> $VERIF_REPO|" "$HERE/go.mod" > "$WORK/build.mod"
	cp "$HERE/go.sum" "$WORK/build.sum"
	# the hook file is added virtually to package deploy (nothing in the repository is touched)
	printf '{"Replace": {"%s/deploy/zz_export_verif.go": "%s/hooks/deploy_export_verif.go"}}\n' "$VERIF_REPO" "$VERIF" > "$WORK/overlay.json"
	(cd "$HERE" && $GO test -modfile="$WORK/build.mod" -tags verif -overlay "$WORK/overlay.json" -vet=off -c -o "$WORK/deploymc.test" .) || { echo "HARNESS ERROR: build of deploymc failed" >&2; exit 2; }
}

case "${1:-}" in
replay)
	rf=${2:?}
	build
	sched=$(python3 -c "import json,sys; print(json.dumps(json.load(open(sys.argv[1]))['case']))" "$rf") || exit 2
	C13_OUT=$WORK C13_REPLAY="$sched" "$WORK/deploymc.test" -test.run 'TestC13$' -test.count=1 >"$WORK/log" 2>&1 || { tail -20 "$WORK/log"; exit 2; }
	[ -n "${C13_TRACE:-}" ] && grep TRACE "$WORK/log"
	python3 - "$WORK/replay.json" "$rf" <<'PY'
import json,sys
r=json.load(open(sys.argv[1]))
print("replay of C13 schedule", json.dumps(r["schedule"]), "rounds", r["rounds"], "finished", r["finished"])
vs=r.get("violations") or []
for v in vs: print(" ", v["class"], v["where"], v["msg"][:300])
if vs:
    print("VIOLATION property=C13 replay=%s"%sys.argv[2]); sys.exit(1)
print("no violation on this tree")
PY
	exit $?
	;;
C13)
	tier=${2:-${VERIF_TIER:-quick}}
	build
	export VERIF_TIER=$tier C13_OUT=$WORK
	t0=$(date +%s)
	timeout 5h "$WORK/deploymc.test" -test.run 'TestC13$|TestC13Helpers$' -test.count=1 -test.timeout 5h >"$WORK/log" 2>&1
	rc=$?
	if [ ! -s "$WORK/report.json" ] || [ ! -s "$WORK/helpers.json" ]; then
		echo "HARNESS ERROR: deploymc produced no report (exit $rc)" >&2; tail -30 "$WORK/log" >&2; exit 2
	fi
	python3 "$HERE/merge.py" "$WORK" "$VERIF" "$tier" "${VERIF_SEED:-0}" $(( $(date +%s) - t0 ))
	exit $?
	;;
*)
	echo "usage: run.sh C13 quick|thorough | replay <file>" >&2; exit 2;;
esac
