package deploymc

import (
	"errors"
	"github.com/nspcc-dev/neo-go/pkg/encoding/bigint"
	"bytes"
	"context"
	"crypto/sha256"
	"encoding/json"
	"fmt"
	"os"
	"path/filepath"
	"sort"
	"strconv"
	"strings"
	"sync"
	"testing"
	"testing/synctest"
	"time"

	"github.com/nspcc-dev/neo-go/pkg/core/native/noderoles"
	"github.com/nspcc-dev/neo-go/pkg/crypto/keys"
	"github.com/nspcc-dev/neo-go/pkg/smartcontract/callflag"
	"github.com/nspcc-dev/neo-go/pkg/smartcontract/trigger"
	"github.com/nspcc-dev/neo-go/pkg/util"
	"github.com/nspcc-dev/neo-go/pkg/vm/stackitem"
	"github.com/nspcc-dev/neo-go/pkg/wallet"
	"github.com/nspcc-dev/neofs-contract/contracts"
	"github.com/nspcc-dev/neofs-contract/deploy"
	"go.uber.org/zap"
)

// ---------- schedules ----------

// Dev is one deviation from the default schedule (everybody awake every round, transactions
// mined in submission order, nobody crashes).
type Dev struct {
	Kind   string `json:"kind"`             // sleep | crash | reorder | absent | hold (the transaction at position Swap of block Round stays out of blocks for Len rounds)
	Member int    `json:"member,omitempty"` // sleep, crash
	Round  int    `json:"round,omitempty"`  // sleep: first missed round; crash: round of the cancellation (call = 0); reorder: block
	Len    int    `json:"len,omitempty"`    // sleep: rounds missed; crash: rounds until the restart
	Call   int    `json:"call,omitempty"`   // crash: cancel at this chain call of the member's first incarnation (0 = at the start of Round)
	Swap   int    `json:"swap,omitempty"`   // reorder: exchange positions Swap and Swap+1 of the block's transactions
	Set    []int  `json:"set,omitempty"`    // absent: members paused until the Notary role is designated
}

type Schedule struct {
	N    int   `json:"n"`
	Devs []Dev `json:"devs"`
}

func (s Schedule) String() string {
	b, _ := json.Marshal(s)
	return string(b)
}

// Violation of the C13 oracle in one run.
type Violation struct {
	Class string         `json:"class"`
	Where map[string]any `json:"where"`
	Msg   string         `json:"msg"`
}

type RunResult struct {
	Sched        Schedule    `json:"schedule"`
	Rounds       int         `json:"rounds"`
	Height       uint32      `json:"height"`
	Finished     bool        `json:"finished"`
	Violations   []Violation `json:"violations,omitempty"`
	Digest       string      `json:"digest"` // per-round digest of decoded submissions (determinism self-check)
	TxPerRound   []int       `json:"-"`      // number of transactions mined per round (reorder choice points)
	CallsAtRound [][]int     `json:"-"`      // per member: call counter at the start of every round (crash points)
	RerunSubs    int         `json:"rerun_submissions"`
	NotaryRound  int         `json:"notary_round"` // round in which the Notary role got designated
	Harness      string      `json:"harness_error,omitempty"`
}

type glag struct{}

func (glag) Size() int                  { return 41 }
func (glag) LetterByIndex(i int) string { return fmt.Sprintf("letter%d", i) }

var fsContracts = func() []contracts.Contract {
	fs, err := contracts.GetFS()
	if err != nil {
		panic(err)
	}
	return fs
}()

func mkPrm(h *Harness, m *memberChain, log *zap.Logger) deploy.Prm {
	fs := fsContracts
	c := func(j int) deploy.CommonDeployPrm {
		return deploy.CommonDeployPrm{NEF: fs[j].NEF, Manifest: fs[j].Manifest}
	}
	var prm deploy.Prm
	prm.Logger = log
	prm.Blockchain = m
	// wallet.Account.Close zeroes the key it shares with the caller: every incarnation gets copies
	k, _ := keys.NewPrivateKeyFromBytes(h.keys[m.idx].Bytes())
	prm.LocalAccount = wallet.NewAccountFromPrivateKey(k)
	prm.ValidatorMultiSigAccount = h.validatorAcc(m.idx)
	prm.NNS.Common = c(0)
	prm.NNS.SystemEmail = "nonexistent@nspcc.io"
	prm.ProxyContract.Common = c(1)
	prm.AuditContract.Common = c(2)
	prm.NetmapContract.Common = c(3)
	prm.NetmapContract.Config = deploy.NetworkConfiguration{MaxObjectSize: 64 << 20, StoragePrice: 1, AuditFee: 1, EpochDuration: 240, ContainerFee: 1000, ContainerAliasFee: 500, EigenTrustIterations: 4, EigenTrustAlpha: 0.1, IRCandidateFee: 100, WithdrawalFee: 1}
	prm.BalanceContract.Common = c(4)
	prm.ReputationContract.Common = c(5)
	prm.NeoFSIDContract.Common = c(6)
	prm.ContainerContract.Common = c(7)
	prm.AlphabetContract.Common = c(8)
	prm.Glagolitsa = glag{}
	return prm
}

type doneMsg struct {
	member, inc int
	err         error
}

// runSchedule executes one schedule in its own synctest bubble.
func runSchedule(t *testing.T, s Schedule, horizon int, dir string) (res RunResult) {
	res.Sched = s
	res.NotaryRound = -1
	synctest.Test(t, func(t *testing.T) {
		defer func() {
			if r := recover(); r != nil {
				res.Harness = fmt.Sprint(r)
			}
		}()
		h, err := NewHarness(s.N, dir, zap.NewNop())
		if err != nil {
			res.Harness = err.Error()
			return
		}
		n := s.N
		done := make(chan doneMsg, 64)
		live := make([]bool, n)    // a Deploy call of this member is running
		ok := make([]bool, n)      // ... and its last incarnation returned nil
		restartAt := map[int]int{} // member -> round of the restart
		ctxs := make([]context.CancelFunc, n)
		start := func(i, crashAt int) {
			ctx, cancel := context.WithCancel(context.Background())
			m := h.NewIncarnation(i, cancel, crashAt)
			ctxs[i] = cancel
			live[i] = true
			prm := mkPrm(h, m, zap.NewNop())
			go func() { done <- doneMsg{i, m.inc, deploy.Deploy(ctx, prm)} }()
		}
		crashCall := map[int]Dev{}
		for _, d := range s.Devs {
			if d.Kind == "crash" && d.Call > 0 {
				crashCall[d.Member] = d
			}
			if d.Kind == "absent" {
				for _, i := range d.Set {
					h.Pause(i)
				}
			}
		}
		for i := 0; i < n; i++ {
			start(i, crashCall[i].Call)
		}
		res.CallsAtRound = make([][]int, n)
		hsh := sha256.New()
		collect := func() {
			for {
				select {
				case d := <-done:
					h.mu.Lock()
					cur := h.members[d.member].inc
					h.mu.Unlock()
					if d.inc != cur {
						continue // an old incarnation
					}
					live[d.member] = false
					ok[d.member] = d.err == nil
					if d.err != nil {
						if _, planned := restartAt[d.member]; !planned {
							// a cancelled incarnation returns the context error; anything else is a failure
							if cd, isCrash := crashCall[d.member]; isCrash && d.inc == 0 && errors.Is(d.err, context.Canceled) {
								// the planned cancellation at a chain call (any other error before that point is a failure)
								restartAt[d.member] = res.Rounds + cd.Len
							} else {
								res.Violations = append(res.Violations, Violation{"deploy-returned-error", map[string]any{"member": d.member, "n": n}, fmt.Sprintf("member %d: %v", d.member, d.err)})
							}
						}
					}
					continue
				default:
				}
				break
			}
		}
		allDone := func() bool {
			for i := 0; i < n; i++ {
				if live[i] {
					return false
				}
			}
			return len(restartAt) == 0
		}
		for res.Rounds < horizon {
			synctest.Wait()
			collect()
			if allDone() {
				res.Finished = true
				break
			}
			r := res.Rounds
			h.mu.Lock()
			h.Round = r
			for i := 0; i < n; i++ {
				res.CallsAtRound[i] = append(res.CallsAtRound[i], h.members[i].ncalls)
			}
			h.mu.Unlock()
			swap := -1
			for _, d := range s.Devs {
				switch d.Kind {
				case "sleep":
					if r == d.Round {
						h.Pause(d.Member)
					}
					if r == d.Round+d.Len {
						h.Resume(d.Member)
					}
				case "crash":
					if d.Call == 0 && r == d.Round && live[d.Member] {
						restartAt[d.Member] = r + d.Len
						ctxs[d.Member]()
					}
				case "reorder":
					if r == d.Round {
						swap = d.Swap
					}
				case "hold":
					if r == d.Round {
						h.mu.Lock()
						h.holdNext, h.holdLen = d.Swap, d.Len
						h.mu.Unlock()
					}
				}
			}
			for i, at := range restartAt {
				if r >= at && !live[i] {
					delete(restartAt, i)
					start(i, 0)
				}
			}
			b, err := h.MineBlock(swap)
			if err != nil {
				res.Harness = "mine: " + err.Error()
				return
			}
			res.TxPerRound = append(res.TxPerRound, len(b.Transactions))
			if res.NotaryRound < 0 {
				if ks, _, _ := h.bc.GetDesignatedByRole(noderoles.P2PNotary); len(ks) > 0 {
					res.NotaryRound = r
					for _, d := range s.Devs {
						if d.Kind == "absent" {
							for _, i := range d.Set {
								h.Resume(i)
							}
						}
					}
				}
			}
			// determinism digest: what was mined this round (scripts only: hashes carry random nonces)
			var ss []string
			for _, tx := range b.Transactions {
				ss = append(ss, methodsIn(tx.Script))
			}
			sort.Strings(ss)
			if os.Getenv("C13_TRACE") != "" && len(ss) > 0 {
				fmt.Fprintf(os.Stderr, "TRACE round %d: %v\n", r, ss)
			}
			fmt.Fprintf(hsh, "%d:%v;", r, ss)
			res.Rounds++
			time.Sleep(blockMs * time.Millisecond)
		}
		res.Height = h.bc.BlockHeight()
		res.Digest = fmt.Sprintf("%x", hsh.Sum(nil)[:8])
		if !res.Finished {
			var stuck []int
			for i := 0; i < n; i++ {
				if live[i] {
					stuck = append(stuck, i)
				}
			}
			res.Violations = append(res.Violations, Violation{"no-termination", map[string]any{"n": n}, fmt.Sprintf("members %v still running after %d blocks (Notary designated in round %d)", stuck, horizon, res.NotaryRound)})
		} else {
			res.Violations = append(res.Violations, checkChain(h, s)...)
			res.Violations = append(res.Violations, checkSubmissions(h, s)...)
			// ---- idempotence: everybody runs the procedure again on the finished chain ----
			before := chainFingerprint(h)
			h.mu.Lock()
			h.Phase = "rerun"
			h.mu.Unlock()
			// everybody together; on the default schedule also the leader alone and the last member alone
			groups := [][]int{nil}
			if len(s.Devs) == 0 && n > 1 {
				groups = append(groups, []int{0}, []int{n - 1})
			}
			for gi, grp := range groups {
				who := "everybody"
				if grp == nil {
					for i := 0; i < n; i++ {
						start(i, 0)
					}
				} else {
					who = fmt.Sprintf("member %d alone", grp[0])
					start(grp[0], 0)
				}
				for k := 0; k < 120; k++ {
					synctest.Wait()
					collect()
					if allDone() {
						break
					}
					if _, err := h.MineBlock(-1); err != nil {
						res.Harness = "mine (rerun): " + err.Error()
						return
					}
					time.Sleep(blockMs * time.Millisecond)
				}
				if !allDone() {
					res.Violations = append(res.Violations, Violation{"rerun-no-termination", map[string]any{"n": n, "who": who}, "a second run on the finished chain (" + who + ") did not return within 120 blocks"})
					break
				}
				_ = gi
			}
			h.mu.Lock()
			for _, sub := range h.Subs {
				if sub.Phase != "rerun" {
					continue
				}
				res.RerunSubs++
				if what := forbiddenInRerun(sub.Script); what != "" {
					res.Violations = append(res.Violations, Violation{"rerun-not-idempotent", map[string]any{"n": n, "call": what}, fmt.Sprintf("the second run of member %d submitted a transaction calling %s", sub.Member, what)})
				}
			}
			h.mu.Unlock()
			if after := chainFingerprint(h); after != before {
				res.Violations = append(res.Violations, Violation{"rerun-not-idempotent", map[string]any{"n": n, "call": "state"}, "contracts, roles or NNS records changed during the second run:\n" + before + "\n---\n" + after})
			}
		}
		for i := 0; i < n; i++ {
			if ctxs[i] != nil {
				ctxs[i]()
			}
			h.Resume(i)
		}
		synctest.Wait()
		h.Close()
	})
	return res
}

// methodsIn names the contract methods a script calls (scripts themselves carry random nonces
// and signatures, so the determinism digest is taken over what is called, not over bytes).
func methodsIn(script []byte) string {
	var out []string
	for _, m := range []string{"deploy", "update", "register", "addRecord", "setRecord", "deleteRecords", "designateAsRole", "transfer", "lockDepositUntil", "vote", "setAdmin", "renew", "registerTLD"} {
		if bytes.Contains(script, append([]byte{0x0c, byte(len(m))}, m...)) {
			out = append(out, m)
		}
	}
	return strings.Join(out, "+")
}

func forbiddenInRerun(script []byte) string {
	for _, m := range []string{"deploy", "update", "register", "registerTLD", "addRecord", "setRecord", "designateAsRole"} {
		// emit.AppCall pushes the method name as PUSHDATA1 <len> <name>
		if bytes.Contains(script, append([]byte{0x0c, byte(len(m))}, m...)) {
			return m
		}
	}
	return ""
}

var systemNames = []string{"proxy", "audit", "netmap", "balance", "reputation", "neofsid", "container"}

func invoke(h *Harness, contract util.Uint160, method string, args ...any) (stackitem.Item, error) {
	ic, err := h.bc.GetTestVM(trigger.Application, nil, nil)
	if err != nil {
		return nil, err
	}
	defer ic.Finalize()
	w := scriptFor(contract, method, args...)
	ic.VM.LoadScriptWithFlags(w, callflag.All)
	if err := ic.VM.Run(); err != nil {
		return nil, err
	}
	if ic.VM.Estack().Len() == 0 {
		return stackitem.Null{}, nil
	}
	return ic.VM.Estack().Pop().Item(), nil
}

// checkChain evaluates the final-state clauses of the property.
func checkChain(h *Harness, s Schedule) []Violation {
	var vs []Violation
	n := s.N
	where := func(kv ...any) map[string]any {
		m := map[string]any{"n": n}
		for i := 0; i+1 < len(kv); i += 2 {
			m[kv[i].(string)] = kv[i+1]
		}
		return m
	}
	for _, role := range []noderoles.Role{noderoles.P2PNotary, noderoles.NeoFSAlphabet} {
		ks, _, _ := h.bc.GetDesignatedByRole(role)
		sort.Sort(ks)
		want := h.pubs.Copy()
		sort.Sort(want)
		if fmt.Sprint(ks) != fmt.Sprint(want) {
			vs = append(vs, Violation{"role-designation", where("role", role.String()), fmt.Sprintf("role %s is designated to %d keys, expected exactly the %d committee keys", role, len(ks), n)})
		}
	}
	nnsHash, err := h.bc.GetContractScriptHash(1)
	if err != nil {
		return append(vs, Violation{"nns-id", where(), "no contract with id 1"})
	}
	if cs := h.bc.GetContractState(nnsHash); cs == nil || cs.Manifest.Name != fsContracts[0].Manifest.Name {
		vs = append(vs, Violation{"nns-id", where(), "contract id 1 is not the NNS"})
	}
	names := append([]string{}, systemNames...)
	for i := 0; i < n; i++ {
		names = append(names, fmt.Sprintf("alphabet%d", i))
	}
	checksum := map[string]uint32{}
	for j, nm := range []string{"nns", "proxy", "audit", "netmap", "balance", "reputation", "neofsid", "container", "alphabet"} {
		checksum[nm] = fsContracts[j].NEF.Checksum
	}
	seen := map[util.Uint160]string{}
	for _, nm := range names {
		it, err := invoke(h, nnsHash, "resolve", nm+".neofs", int64(16))
		if err != nil {
			vs = append(vs, Violation{"name-resolution", where("name", nm), fmt.Sprintf("%s.neofs does not resolve: %v", nm, err)})
			continue
		}
		arr, _ := it.Value().([]stackitem.Item)
		if len(arr) != 1 {
			vs = append(vs, Violation{"name-resolution", where("name", nm), fmt.Sprintf("%s.neofs resolves to %d records, expected exactly one", nm, len(arr))})
			continue
		}
		b, _ := arr[0].TryBytes()
		hs, err := util.Uint160DecodeStringLE(string(b))
		if err != nil {
			vs = append(vs, Violation{"name-resolution", where("name", nm), fmt.Sprintf("%s.neofs record %q is not a contract address", nm, b)})
			continue
		}
		cs := h.bc.GetContractState(hs)
		key := nm
		if strings.HasPrefix(nm, "alphabet") {
			key = "alphabet"
		}
		if cs == nil {
			vs = append(vs, Violation{"name-resolution", where("name", nm), fmt.Sprintf("%s.neofs points to %s, which is not a deployed contract", nm, hs.StringLE())})
		} else if cs.NEF.Checksum != checksum[key] {
			vs = append(vs, Violation{"wrong-executable", where("name", nm), fmt.Sprintf("%s.neofs points to a contract whose executable is not the supplied one", nm)})
		}
		if cs != nil && strings.HasPrefix(nm, "alphabet") {
			// "one Alphabet contract per member": the contract behind alphabet<i> was deployed for member i
			var ind int
			fmt.Sscanf(nm, "alphabet%d", &ind)
			if it, err := invoke(h, hs, "name"); err != nil {
				vs = append(vs, Violation{"wrong-alphabet-contract", where("name", nm), fmt.Sprintf("name() of %s: %v", nm, err)})
			} else if b, _ := it.TryBytes(); string(b) != (glag{}).LetterByIndex(ind) {
				vs = append(vs, Violation{"wrong-alphabet-contract", where("name", nm), fmt.Sprintf("%s.neofs points to the Alphabet contract named %q, expected %q", nm, b, (glag{}).LetterByIndex(ind))})
			}
			if si := h.bc.GetStorageItem(cs.ID, []byte("index")); si == nil || bigint.FromBytes(si).Int64() != int64(ind) {
				vs = append(vs, Violation{"wrong-alphabet-contract", where("name", nm), fmt.Sprintf("%s.neofs points to an Alphabet contract with stored index %v, expected %d", nm, []byte(si), ind)})
			}
		}
		if prev, dup := seen[hs]; dup {
			vs = append(vs, Violation{"name-resolution", where("name", nm), fmt.Sprintf("%s and %s resolve to the same contract", nm, prev)})
		}
		seen[hs] = nm
	}
	// exactly 8 + n non-native contracts: nothing was deployed twice
	cnt := 0
	for id := int32(1); id < 200; id++ {
		if _, err := h.bc.GetContractScriptHash(id); err != nil {
			break
		}
		cnt++
	}
	if cnt != 8+n {
		vs = append(vs, Violation{"contract-count", where("count", cnt), fmt.Sprintf("the chain holds %d deployed contracts, expected %d (8 + one Alphabet contract per member)", cnt, 8+n)})
	}
	// "deploys exactly once": nothing that was just deployed has been updated (how many transactions designate the
	// roles is not fixed by the statement: the procedure designates three or four times by design)
	for id := int32(1); id <= int32(cnt); id++ {
		hs, err := h.bc.GetContractScriptHash(id)
		if err != nil {
			break
		}
		if cs := h.bc.GetContractState(hs); cs != nil && cs.UpdateCounter != 0 {
			vs = append(vs, Violation{"needless-update", where("contract", cs.Manifest.Name), fmt.Sprintf("contract %s (id %d) was updated %d times during the first deployment", cs.Manifest.Name, id, cs.UpdateCounter)})
		}
	}
	return vs
}

// checkSubmissions: no member ever submitted a designateAsRole transaction the chain rejected
// for an invalid witness.
func checkSubmissions(h *Harness, s Schedule) []Violation {
	var vs []Violation
	h.mu.Lock()
	defer h.mu.Unlock()
	for _, sub := range h.Subs {
		if sub.Err == "" || !bytes.Contains(sub.Script, []byte("designateAsRole")) {
			continue
		}
		if strings.Contains(strings.ToLower(sub.Err), "signature") || strings.Contains(strings.ToLower(sub.Err), "witness") {
			vs = append(vs, Violation{"invalid-designation-transaction", map[string]any{"n": s.N}, fmt.Sprintf("member %d submitted a role designation the chain rejects: %s", sub.Member, sub.Err)})
			break
		}
	}
	return vs
}

// chainFingerprint: contracts (id, hash, update counter), roles and the NNS records of the system names.
func chainFingerprint(h *Harness) string {
	var sb strings.Builder
	for id := int32(1); id < 200; id++ {
		hs, err := h.bc.GetContractScriptHash(id)
		if err != nil {
			break
		}
		cs := h.bc.GetContractState(hs)
		fmt.Fprintf(&sb, "contract %d %s upd=%d sum=%d\n", id, hs.StringLE(), cs.UpdateCounter, cs.NEF.Checksum)
	}
	for _, role := range []noderoles.Role{noderoles.P2PNotary, noderoles.NeoFSAlphabet} {
		ks, _, _ := h.bc.GetDesignatedByRole(role)
		fmt.Fprintf(&sb, "role %s %d\n", role, len(ks))
	}
	if nnsHash, err := h.bc.GetContractScriptHash(1); err == nil {
		names := append([]string{}, systemNames...)
		for i := 0; i < len(h.pubs); i++ {
			names = append(names, fmt.Sprintf("alphabet%d", i))
		}
		for _, nm := range names {
			it, err := invoke(h, nnsHash, "getAllRecords", nm+".neofs")
			fmt.Fprintf(&sb, "nns %s %v %v\n", nm, dumpItem(it), err != nil)
		}
		it, _ := invoke(h, nnsHash, "totalSupply")
		fmt.Fprintf(&sb, "nns supply %v\n", dumpItem(it))
	}
	return sb.String()
}

func dumpItem(it stackitem.Item) string {
	if it == nil {
		return "<nil>"
	}
	b, err := stackitem.ToJSONWithTypes(it)
	if err != nil {
		return fmt.Sprintf("%T", it)
	}
	// the SOA record of a name carries its registration time only: stable across a re-run
	return string(b)
}

// ---------- exploration ----------

type tierCfg struct {
	ns           []int
	sleepNs      []int
	sleepLens    []int
	longSleepNs  []int // committee sizes that get 150-round sleeps placed shortly before the Notary round
	crashNs      []int
	crashDelays  []int
	crashEvery   int // crash at the start of every k-th round
	callCrashNs  []int
	callStride   int
	reorderNs    []int
	holdNs       []int
	holdLens     []int
	absentNs     []int
	repeat       int // repetitions of the default schedule for n >= 4 (uncontrolled map order)
	twoDevN      int // all two-deviation sleep schedules for this n (0 = none)
	twoDevStride int
	staggerNs    []int // committee sizes for the "one member signs early and goes away, the others arrive late" schedules
	pairCrashNs  []int // committee sizes for the two-crash schedules (two members down at once; a restarted member cancelled again)
	pairStride   int   // ... placed on every k-th round of the default schedule
	pairGaps     []int // rounds between the first and the second cancellation of one member
}

func tierOf(name string) tierCfg {
	if name == "thorough" {
		c := tierCfg{ns: []int{1, 2, 3, 4, 5, 6, 7}, sleepNs: []int{1, 2, 3, 4}, sleepLens: []int{1, 3, 150}, crashNs: []int{1, 2, 3, 4}, crashDelays: []int{0, 2}, crashEvery: 1,
			callCrashNs: []int{2, 3}, callStride: 3, reorderNs: []int{1, 2, 3}, holdNs: []int{1, 2, 3}, holdLens: []int{1, 3}, absentNs: []int{3, 4, 5, 6, 7}, repeat: 16, twoDevN: 2, twoDevStride: 6, staggerNs: []int{4, 5, 6},
			longSleepNs: []int{2, 3}, pairCrashNs: []int{1, 2, 3, 4}, pairStride: 2, pairGaps: []int{1, 2, 5, 30}}
		if os.Getenv("C13_LONG_OUTAGES") != "" {
			// a member that stays away for 150 rounds after a cancellation at ANY round, and a pooled transaction that is
			// never mined before it expires: some of these schedules do not terminate in the harness and have not been
			// classified (DESIGN section 9); they are kept for investigation and are not part of the registered tier
			c.crashDelays = append(c.crashDelays, 150)
			c.holdLens = append(c.holdLens, 130)
		}
		return c
	}
	return tierCfg{ns: []int{1, 2, 3, 4}, sleepNs: []int{1, 2, 3}, sleepLens: []int{1}, longSleepNs: []int{2, 3}, crashNs: []int{1, 2, 3}, crashDelays: []int{0}, crashEvery: 2,
		callCrashNs: nil, reorderNs: []int{2}, holdNs: []int{1, 2}, holdLens: []int{2}, absentNs: []int{3, 4}, repeat: 3, staggerNs: []int{4},
		pairCrashNs: []int{1, 2, 3}, pairStride: 8, pairGaps: []int{1, 4}}
}

func minorities(n int) [][]int {
	// non-empty sets of non-leading members that leave a majority (incl. member 0) running
	max := n - (n/2 + 1)
	var out [][]int
	for mask := 1; mask < 1<<uint(n-1); mask++ {
		var set []int
		for i := 1; i < n; i++ {
			if mask&(1<<uint(i-1)) != 0 {
				set = append(set, i)
			}
		}
		if len(set) <= max {
			out = append(out, set)
		}
	}
	return out
}

type report struct {
	Tier        string               `json:"tier"`
	Runs        int                  `json:"runs"`
	ByKind      map[string]int       `json:"runs_by_kind"`
	Default     map[string]RunResult `json:"default_runs"`
	Distinct    int                  `json:"distinct_outcomes"`
	Violations  []map[string]any     `json:"violations"`
	Harness     []string             `json:"harness_errors"`
	Samples     []any                `json:"samples"`
	Bound       string               `json:"bound_completed"`
	WallS       float64              `json:"wall_s"`
	Determinism map[string]string    `json:"determinism"`
}

func TestC13(t *testing.T) {
	tier := os.Getenv("VERIF_TIER")
	if tier == "" {
		tier = "quick"
	}
	out := os.Getenv("C13_OUT")
	if out == "" {
		t.Skip("C13_OUT not set (run through deploymc/run.sh)")
	}
	if one := os.Getenv("C13_REPLAY"); one != "" {
		var s Schedule
		if err := json.Unmarshal([]byte(one), &s); err != nil {
			t.Fatal(err)
		}
		dir := t.TempDir()
		r := runSchedule(t, s, horizonFor(s.N, 0), dir)
		b, _ := json.MarshalIndent(r, "", " ")
		os.WriteFile(filepath.Join(out, "replay.json"), b, 0o644)
		return
	}
	cfg := tierOf(tier)
	t0 := time.Now()
	rep := &report{Tier: tier, ByKind: map[string]int{}, Default: map[string]RunResult{}, Determinism: map[string]string{}}
	workers := 16
	if v, err := strconv.Atoi(os.Getenv("VERIF_WORKERS")); err == nil && v > 0 {
		workers = v
	}
	var mu sync.Mutex
	outcomes := map[string]bool{}
	runAll := func(scheds []Schedule, horizons map[int]int) []RunResult {
		results := make([]RunResult, len(scheds))
		var wg sync.WaitGroup
		idx := 0
		for w := 0; w < workers; w++ {
			wg.Add(1)
			go func() {
				defer wg.Done()
				for {
					mu.Lock()
					j := idx
					idx++
					mu.Unlock()
					if j >= len(scheds) {
						return
					}
					dir, _ := os.MkdirTemp("", "c13-")
					t.Run(fmt.Sprintf("s%d", j), func(t *testing.T) {
						results[j] = runSchedule(t, scheds[j], horizons[scheds[j].N], dir)
					})
					os.RemoveAll(dir)
				}
			}()
		}
		wg.Wait()
		for _, r := range results {
			rep.Runs++
			kind := "default"
			if len(r.Sched.Devs) > 0 {
				kind = r.Sched.Devs[0].Kind
				if len(r.Sched.Devs) > 1 {
					kind += "+" + r.Sched.Devs[1].Kind
				}
				if len(r.Sched.Devs) == 2 && kind == "crash+crash" && r.Sched.Devs[0].Member == r.Sched.Devs[1].Member {
					kind = "crash-twice"
				}
				if len(r.Sched.Devs) > 1 && r.Sched.Devs[0].Len == 400 {
					kind = "early-signer-leaves"
				}
			}
			rep.ByKind[fmt.Sprintf("n%d/%s", r.Sched.N, kind)]++
			outcomes[fmt.Sprintf("n%d rounds=%d notary=%d viol=%d", r.Sched.N, r.Rounds, r.NotaryRound, len(r.Violations))] = true
			if r.Harness != "" {
				rep.Harness = append(rep.Harness, r.Sched.String()+": "+r.Harness)
			}
			for _, v := range r.Violations {
				rep.Violations = append(rep.Violations, map[string]any{"class": v.Class, "where": v.Where, "msg": v.Msg, "schedule": r.Sched})
			}
		}
		return results
	}
	// ---- 0 deviations: the default schedule, twice for the determinism self-check ----
	var defs []Schedule
	for _, n := range cfg.ns {
		reps := 2
		if n >= 4 && cfg.repeat > reps {
			reps = cfg.repeat
		}
		for k := 0; k < reps; k++ {
			defs = append(defs, Schedule{N: n})
		}
	}
	h0 := map[int]int{}
	for _, n := range cfg.ns {
		h0[n] = horizonFor(n, 0)
	}
	dres := runAll(defs, h0)
	defLen := map[int]int{}
	byN := map[int][]RunResult{}
	for _, r := range dres {
		byN[r.Sched.N] = append(byN[r.Sched.N], r)
	}
	for n, rs := range byN {
		rep.Default[fmt.Sprint(n)] = rs[0]
		if rs[0].Finished {
			defLen[n] = rs[0].Rounds
		}
		same := true
		for _, r := range rs[1:] {
			if r.Digest != rs[0].Digest || r.Rounds != rs[0].Rounds {
				same = false
			}
		}
		rep.Determinism[fmt.Sprint(n)] = fmt.Sprintf("%d default runs, identical=%v", len(rs), same)
		if !same {
			// the same schedule must give the same run: the explorer cannot enumerate what it does not control.
			// The statement does not demand determinism, so this is a harness diagnostic, not a verdict
			rep.Harness = append(rep.Harness, fmt.Sprintf("n=%d: repeated default schedules differ (rounds %v): a source of nondeterminism is not under the scheduler's control", n, roundsOf(rs)))
		}
	}
	rep.Bound = "0 deviations"
	if len(rep.Violations) == 0 && len(rep.Harness) == 0 {
		// ---- 1 deviation ----
		var scheds []Schedule
		hz := map[int]int{}
		for n, l := range defLen {
			hz[n] = horizonFor(n, l)
		}
		def := func(n int) RunResult { return byN[n][0] }
		// a member that sleeps through a whole validity window (120 blocks) around the Notary bootstrap: the
		// shared designation data expires and is rolled over, stale signatures must be recognised
		for _, n := range cfg.longSleepNs {
			nr := def(n).NotaryRound
			for i := 0; i < n; i++ {
				// 10 and 60 rounds before the default designation, and the last three rounds before it (between the
				// publication of the shared data, the members' signatures and the leader's collection of them)
				for _, back := range []int{1, 2, 3, 10, 60} {
					if nr-back > 1 {
						scheds = append(scheds, Schedule{N: n, Devs: []Dev{{Kind: "sleep", Member: i, Round: nr - back, Len: 150}}})
					}
				}
			}
		}
		// ... and a member that is cancelled in those rounds and comes back only after the window has passed: what it
		// published or signed before is stale by then, what the others signed in the meantime refers to it
		for _, n := range cfg.longSleepNs {
			nr := def(n).NotaryRound
			for i := 0; i < n; i++ {
				for _, back := range []int{1, 2, 3, 4, 6, 10} {
					if nr-back > 1 {
						scheds = append(scheds, Schedule{N: n, Devs: []Dev{{Kind: "crash", Member: i, Round: nr - back, Len: 150}}})
					}
				}
			}
		}
		for _, n := range cfg.sleepNs {
			for i := 0; i < n; i++ {
				for r := 0; r < defLen[n]; r++ {
					for _, k := range cfg.sleepLens {
						scheds = append(scheds, Schedule{N: n, Devs: []Dev{{Kind: "sleep", Member: i, Round: r, Len: k}}})
					}
				}
			}
		}
		for _, n := range cfg.crashNs {
			for i := 0; i < n; i++ {
				for r := 1; r < defLen[n]; r += cfg.crashEvery {
					for _, k := range cfg.crashDelays {
						scheds = append(scheds, Schedule{N: n, Devs: []Dev{{Kind: "crash", Member: i, Round: r, Len: k}}})
					}
				}
			}
		}
		for _, n := range cfg.callCrashNs {
			for i := 0; i < n; i++ {
				calls := def(n).CallsAtRound[i]
				last := calls[len(calls)-1]
				for c := 1; c <= last; c += cfg.callStride {
					scheds = append(scheds, Schedule{N: n, Devs: []Dev{{Kind: "crash", Member: i, Call: c, Len: 1}}})
				}
			}
		}
		for _, n := range cfg.reorderNs {
			for r, k := range def(n).TxPerRound {
				for sw := 0; sw+1 < k; sw++ {
					scheds = append(scheds, Schedule{N: n, Devs: []Dev{{Kind: "reorder", Round: r, Swap: sw}}})
				}
			}
		}
		// a transaction that stays in the pool for a while (or until it expires) instead of being mined at once
		for _, n := range cfg.holdNs {
			for r, k := range def(n).TxPerRound {
				for j := 0; j < k; j++ {
					for _, l := range cfg.holdLens {
						scheds = append(scheds, Schedule{N: n, Devs: []Dev{{Kind: "hold", Round: r, Swap: j, Len: l}}})
					}
				}
			}
		}
		for _, n := range cfg.absentNs {
			if defLen[n] == 0 {
				continue
			}
			for _, set := range minorities(n) {
				scheds = append(scheds, Schedule{N: n, Devs: []Dev{{Kind: "absent", Set: set}}})
			}
		}
		// one non-leading member takes part in the Notary bootstrap from the start and goes away right after the round in
		// which the default schedule designates the role (so it has signed by then); all other non-leading members
		// sleep through the validity window of the shared designation data (150 rounds): the leader holds a signature for the
		// old data when signatures for the new data come in. Several deviations at once, one fixed shape per member
		for _, n := range cfg.staggerNs {
			nr := def(n).NotaryRound
			if defLen[n] == 0 || nr < 0 {
				continue
			}
			for k := 1; k < n; k++ {
				// the others fall asleep a few rounds before the default designation (4, 6, 10: before, around and after the
				// leader publishes the shared data) and sleep through its validity window
				for _, back := range []int{4, 6, 10} {
					if nr-back < 1 {
						continue
					}
					devs := []Dev{{Kind: "sleep", Member: k, Round: nr + 1, Len: 400}}
					for j := 1; j < n; j++ {
						if j != k {
							devs = append(devs, Dev{Kind: "sleep", Member: j, Round: nr - back, Len: 150})
						}
					}
					scheds = append(scheds, Schedule{N: n, Devs: devs})
				}
				if hz[n] < nr+400+2*defLen[n]+300 {
					hz[n] = nr + 400 + 2*defLen[n] + 300
				}
			}
		}
		runAll(scheds, hz)
		rep.Bound = "all enumerated 1-deviation schedules"
		if len(cfg.staggerNs) > 0 {
			rep.Bound += fmt.Sprintf(" and the early-signer-leaves shapes (n-1 simultaneous sleeps) for n=%v", cfg.staggerNs)
		}
		// ---- 2 deviations: two cancellations. (a) two members are cancelled in the same round and restarted together
		// (at once, or two rounds later); (b) a member is cancelled, restarted at once, and its second incarnation is
		// cancelled again a few rounds later ----
		if len(cfg.pairCrashNs) > 0 && len(rep.Violations) == 0 {
			var s2 []Schedule
			for _, n := range cfg.pairCrashNs {
				if defLen[n] == 0 {
					continue
				}
				for r := 1; r < defLen[n]; r += cfg.pairStride {
					for i := 0; i < n; i++ {
						for j := i + 1; j < n; j++ {
							for _, k := range []int{0, 2} {
								s2 = append(s2, Schedule{N: n, Devs: []Dev{{Kind: "crash", Member: i, Round: r, Len: k}, {Kind: "crash", Member: j, Round: r, Len: k}}})
							}
						}
						for _, g := range cfg.pairGaps {
							s2 = append(s2, Schedule{N: n, Devs: []Dev{{Kind: "crash", Member: i, Round: r, Len: 0}, {Kind: "crash", Member: i, Round: r + g, Len: 0}}})
						}
					}
				}
			}
			runAll(s2, hz)
			rep.Bound += fmt.Sprintf("; two cancellations (two members in one round; one member twice, %v rounds apart) for n=%v on a stride of %d rounds", cfg.pairGaps, cfg.pairCrashNs, cfg.pairStride)
		}
		// ---- 2 deviations (thorough): pairs of sleeps for the smallest multi-member committee ----
		if cfg.twoDevN > 0 && len(rep.Violations) == 0 {
			n := cfg.twoDevN
			var s2 []Schedule
			for i := 0; i < n; i++ {
				for j := 0; j < n; j++ {
					for r1 := 0; r1 < defLen[n]; r1 += cfg.twoDevStride {
						for r2 := r1; r2 < defLen[n]; r2 += cfg.twoDevStride {
							if i == j && r1 == r2 {
								continue
							}
							s2 = append(s2, Schedule{N: n, Devs: []Dev{{Kind: "sleep", Member: i, Round: r1, Len: 3}, {Kind: "sleep", Member: j, Round: r2, Len: 3}}})
						}
					}
				}
			}
			runAll(s2, hz)
			rep.Bound += fmt.Sprintf("; 2-deviation sleep pairs for n=%d on a stride of %d rounds", n, cfg.twoDevStride)
		}
	}
	rep.Distinct = len(outcomes)
	rep.WallS = time.Since(t0).Seconds()
	for _, n := range []string{"1", "3"} {
		if r, ok := rep.Default[n]; ok {
			rep.Samples = append(rep.Samples, map[string]any{"schedule": r.Sched, "rounds": r.Rounds, "notary_round": r.NotaryRound, "finished": r.Finished})
		}
	}
	b, _ := json.MarshalIndent(rep, "", " ")
	if err := os.WriteFile(filepath.Join(out, "report.json"), b, 0o644); err != nil {
		t.Fatal(err)
	}
}

func roundsOf(rs []RunResult) []int {
	var out []int
	for _, r := range rs {
		out = append(out, r.Rounds)
	}
	return out
}

// horizonFor: 3 x the default schedule's length + 300 rounds (a generous first horizon when
// the default length is not known yet).
func horizonFor(n, defLen int) int {
	if defLen == 0 {
		return 700 + 150*n
	}
	return 3*defLen + 300
}
