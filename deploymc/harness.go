// Package deploymc: in-process harness for schedule and crash exploration of deploy.Deploy.
package deploymc

import (
	"bytes"
	"context"
	"encoding/hex"
	"errors"
	"fmt"
	"path/filepath"
	"slices"
	"sync"
	"time"

	"github.com/google/uuid"
	"github.com/nspcc-dev/neo-go/pkg/config"
	"github.com/nspcc-dev/neo-go/pkg/config/netmode"
	"github.com/nspcc-dev/neo-go/pkg/core"
	"github.com/nspcc-dev/neo-go/pkg/core/block"
	"github.com/nspcc-dev/neo-go/pkg/core/interop/iterator"
	"github.com/nspcc-dev/neo-go/pkg/core/mempool"
	"github.com/nspcc-dev/neo-go/pkg/core/mempoolevent"
	"github.com/nspcc-dev/neo-go/pkg/core/state"
	"github.com/nspcc-dev/neo-go/pkg/core/storage"
	"github.com/nspcc-dev/neo-go/pkg/core/transaction"
	"github.com/nspcc-dev/neo-go/pkg/crypto/hash"
	"github.com/nspcc-dev/neo-go/pkg/crypto/keys"
	"github.com/nspcc-dev/neo-go/pkg/encoding/address"
	"github.com/nspcc-dev/neo-go/pkg/io"
	"github.com/nspcc-dev/neo-go/pkg/neorpc"
	"github.com/nspcc-dev/neo-go/pkg/neorpc/result"
	"github.com/nspcc-dev/neo-go/pkg/network"
	"github.com/nspcc-dev/neo-go/pkg/network/payload"
	"github.com/nspcc-dev/neo-go/pkg/services/notary"
	"github.com/nspcc-dev/neo-go/pkg/smartcontract"
	"github.com/nspcc-dev/neo-go/pkg/smartcontract/callflag"
	"github.com/nspcc-dev/neo-go/pkg/smartcontract/manifest"
	"github.com/nspcc-dev/neo-go/pkg/smartcontract/trigger"
	"github.com/nspcc-dev/neo-go/pkg/util"
	"github.com/nspcc-dev/neo-go/pkg/vm"
	"github.com/nspcc-dev/neo-go/pkg/vm/emit"
	"github.com/nspcc-dev/neo-go/pkg/vm/stackitem"
	"github.com/nspcc-dev/neo-go/pkg/wallet"
	"go.uber.org/zap"
)

const blockMs = 1000

type Harness struct {
	bc       *core.Blockchain
	cfg      config.Blockchain
	keys     []*keys.PrivateKey // sorted by pubkey
	pubs     keys.PublicKeys
	nPool    *mempool.Pool
	feer     network.NotaryFeer
	notaries []*notary.Notary
	log      *zap.Logger

	mu      sync.Mutex
	members []*memberChain // the live incarnation of every member
	old     []*memberChain // finished / cancelled incarnations (their channels are closed at the end)
	nreqCh  chan mempoolevent.Event
	calls   map[string]int
	Round   int
	Phase   string
	Subs    []Submission
	seq     map[util.Uint256]int // submission sequence of a transaction hash (mempool ordering)
	paused  map[int]chan struct{}
	// hold deviation: the transaction at position holdNext of the next block is withheld for holdLen blocks
	holdNext, holdLen int
	held              map[util.Uint256]int
}

// Submission is one transaction or notary request a member handed to the chain.
type Submission struct {
	Round   int
	Member  int
	Kind    string // tx | notary-request
	Hash    string
	Script  []byte
	Err     string
	Phase   string
	Signer0 string
}

type memberChain struct {
	h       *Harness
	idx     int
	inc     int
	blockCh chan *block.Block
	nreqCh  chan *result.NotaryRequestEvent
	ncalls  int
	crashAt int // cancel the incarnation's context at this call number (0 = never)
	cancel  context.CancelFunc
	closed  bool
}

func NewHarness(n int, dir string, log *zap.Logger) (*Harness, error) {
	h := &Harness{log: log, calls: map[string]int{}, seq: map[util.Uint256]int{}, paused: map[int]chan struct{}{}, Phase: "deploy", holdNext: -1}
	for i := 0; i < n; i++ {
		// deterministic keys
		b := make([]byte, 32)
		b[31] = byte(i + 1)
		b[0] = 0x11
		k, err := keys.NewPrivateKeyFromBytes(b)
		if err != nil {
			return nil, err
		}
		h.keys = append(h.keys, k)
	}
	slices.SortFunc(h.keys, func(a, b *keys.PrivateKey) int { return a.PublicKey().Cmp(b.PublicKey()) })
	var sc []string
	for _, k := range h.keys {
		h.pubs = append(h.pubs, k.PublicKey())
		sc = append(sc, hex.EncodeToString(k.PublicKey().Bytes()))
	}
	h.cfg = config.Blockchain{ProtocolConfiguration: config.ProtocolConfiguration{
		Magic: netmode.UnitTestNet, MaxTraceableBlocks: 10000, TimePerBlock: blockMs * time.Millisecond,
		StandbyCommittee: sc, ValidatorsCount: uint32(n), VerifyTransactions: true,
		P2PSigExtensions: true, MemPoolSize: 1000, MaxValidUntilBlockIncrement: 5760,
	}}
	bc, err := core.NewBlockchain(storage.NewMemoryStore(), h.cfg, log)
	if err != nil {
		return nil, err
	}
	h.bc = bc
	go bc.Run()
	h.nPool = mempool.New(1000, 1, true, nil)
	h.feer = network.NewNotaryFeer(bc)
	h.nPool.RunSubscriptions()
	h.nreqCh = make(chan mempoolevent.Event, 100)
	h.nPool.SubscribeForTransactions(h.nreqCh)
	go h.fanoutNotary()
	// notary services: one per member
	for i, k := range h.keys {
		w, err := wallet.NewWallet(filepath.Join(dir, fmt.Sprintf("w%d.json", i)))
		if err != nil {
			return nil, err
		}
		kcopy, _ := keys.NewPrivateKeyFromBytes(k.Bytes())
		acc := wallet.NewAccountFromPrivateKey(kcopy)
		if err := acc.Encrypt("pass", keys.ScryptParams{N: 2, R: 1, P: 1}); err != nil {
			return nil, err
		}
		w.Scrypt = keys.ScryptParams{N: 2, R: 1, P: 1}
		w.AddAccount(acc)
		if err := w.Save(); err != nil {
			return nil, err
		}
		w.Close()
		ncfg := notary.Config{
			MainCfg: config.P2PNotary{Enabled: true, UnlockWallet: config.Wallet{Path: w.Path(), Password: "pass"}},
			Chain:   bc, Log: log,
		}
		nt, err := notary.NewNotary(ncfg, h.cfg.Magic, h.nPool, func(tx *transaction.Transaction) error {
			err := bc.PoolTx(tx)
			h.note("notary-completed-tx", err)
			return err
		})
		if err != nil {
			return nil, err
		}
		h.notaries = append(h.notaries, nt)
	}
	// only the first one is registered with chain for role updates; others updated manually
	bc.SetNotary(multiNotary(h.notaries))
	for _, nt := range h.notaries {
		nt.Start()
	}
	for i := range h.keys {
		h.members = append(h.members, &memberChain{h: h, idx: i, inc: -1, blockCh: make(chan *block.Block, 1000), nreqCh: make(chan *result.NotaryRequestEvent, 1000)})
	}
	return h, nil
}

type multiNotary []*notary.Notary

func (m multiNotary) UpdateNotaryNodes(pubs keys.PublicKeys) {
	for _, n := range m {
		n.UpdateNotaryNodes(pubs)
	}
}

func (h *Harness) note(kind string, err error) {
	h.mu.Lock()
	defer h.mu.Unlock()
	if err != nil {
		kind += ":ERR"
	}
	h.calls[kind]++
}

func (h *Harness) fanoutNotary() {
	for ev := range h.nreqCh {
		r, ok := ev.Data.(*payload.P2PNotaryRequest)
		if !ok {
			continue
		}
		h.mu.Lock()
		ms := append([]*memberChain{}, h.members...)
		h.mu.Unlock()
		for _, m := range ms {
			select {
			case m.nreqCh <- &result.NotaryRequestEvent{Type: ev.Type, NotaryRequest: r}:
			default:
			}
		}
	}
}

// NewIncarnation gives member i a fresh deploy.Blockchain (own subscriptions); the previous
// one keeps answering until its Deploy call returns.
func (h *Harness) NewIncarnation(i int, cancel context.CancelFunc, crashAt int) *memberChain {
	h.mu.Lock()
	defer h.mu.Unlock()
	old := h.members[i]
	h.old = append(h.old, old)
	m := &memberChain{h: h, idx: i, inc: old.inc + 1, blockCh: make(chan *block.Block, 1000), nreqCh: make(chan *result.NotaryRequestEvent, 1000), cancel: cancel, crashAt: crashAt}
	h.members[i] = m
	return m
}

// Pause parks every chain call of member i until Resume.
func (h *Harness) Pause(i int) {
	h.mu.Lock()
	defer h.mu.Unlock()
	if h.paused[i] == nil {
		h.paused[i] = make(chan struct{})
	}
}

func (h *Harness) Resume(i int) {
	h.mu.Lock()
	defer h.mu.Unlock()
	if ch := h.paused[i]; ch != nil {
		close(ch)
		delete(h.paused, i)
	}
}

func (h *Harness) record(m *memberChain, kind string, tx *transaction.Transaction, err error) {
	h.mu.Lock()
	defer h.mu.Unlock()
	s := Submission{Round: h.Round, Member: m.idx, Kind: kind, Hash: tx.Hash().StringLE(), Script: tx.Script, Phase: h.Phase}
	if len(tx.Signers) > 0 {
		s.Signer0 = tx.Signers[0].Account.StringLE()
	}
	if err != nil {
		s.Err = err.Error()
	} else if _, ok := h.seq[tx.Hash()]; !ok {
		h.seq[tx.Hash()] = len(h.seq)
	}
	h.Subs = append(h.Subs, s)
}

func (h *Harness) Close() {
	for _, nt := range h.notaries {
		nt.Shutdown()
	}
	h.nPool.StopSubscriptions()
	close(h.nreqCh)
	for _, m := range append(append([]*memberChain{}, h.members...), h.old...) {
		if !m.closed {
			m.closed = true
			close(m.blockCh)
			close(m.nreqCh)
		}
	}
	h.bc.Close()
}

// validators multisig account for member i
func (h *Harness) validatorAcc(i int) *wallet.Account {
	acc := wallet.NewAccountFromPrivateKey(h.keys[i])
	if err := acc.ConvertMultisig(smartcontract.GetDefaultHonestNodeCount(len(h.pubs)), h.pubs); err != nil {
		panic(err)
	}
	return acc
}

// MineBlock takes all verified mempool txs and persists a new block.
func (h *Harness) MineBlock(swap int) (*block.Block, error) {
	bc := h.bc
	txs := []*transaction.Transaction{}
	for _, t := range bc.GetMemPool().GetVerifiedTransactions() {
		txs = append(txs, t)
	}
	// default order: the order of submission (notary-completed transactions, which nobody
	// submitted directly, last by hash); `swap` >= 0 exchanges positions swap and swap+1
	h.mu.Lock()
	seq := h.seq
	slices.SortStableFunc(txs, func(a, b *transaction.Transaction) int {
		sa, oa := seq[a.Hash()]
		sb, ob := seq[b.Hash()]
		switch {
		case oa && ob:
			return sa - sb
		case oa:
			return -1
		case ob:
			return 1
		}
		return bytes.Compare(a.Script, b.Script) // transaction hashes carry random nonces
	})
	h.mu.Unlock()
	if swap >= 0 && swap+1 < len(txs) {
		txs[swap], txs[swap+1] = txs[swap+1], txs[swap]
	}
	// withheld transactions stay in the pool (where they may expire) and out of blocks until their release
	h.mu.Lock()
	if h.holdNext >= 0 && h.holdNext < len(txs) {
		if h.held == nil {
			h.held = map[util.Uint256]int{}
		}
		h.held[txs[h.holdNext].Hash()] = h.holdLen
	}
	h.holdNext = -1
	kept := txs[:0]
	for _, t := range txs {
		if left, ok := h.held[t.Hash()]; ok && left > 0 {
			h.held[t.Hash()] = left - 1
			continue
		}
		kept = append(kept, t)
	}
	txs = kept
	h.mu.Unlock()
	last, err := bc.GetBlock(bc.GetHeaderHash(bc.BlockHeight()))
	if err != nil {
		return nil, err
	}
	m := smartcontract.GetDefaultHonestNodeCount(len(h.pubs))
	vs, err := smartcontract.CreateMultiSigRedeemScript(m, h.pubs.Copy())
	if err != nil {
		return nil, err
	}
	b := &block.Block{Header: block.Header{
		NextConsensus: hash.Hash160(vs),
		Script:        transaction.Witness{VerificationScript: vs},
		Timestamp:     last.Timestamp + blockMs,
		PrevHash:      last.Hash(),
		Index:         bc.BlockHeight() + 1,
		PrimaryIndex:  byte(int(bc.BlockHeight()+1) % len(h.pubs)),
	}, Transactions: txs}
	b.RebuildMerkleRoot()
	w := io.NewBufBinWriter()
	for i := 0; i < m; i++ {
		sig := h.keys[i].SignHashable(uint32(h.cfg.Magic), b)
		emit.Bytes(w.BinWriter, sig)
	}
	b.Script.InvocationScript = w.Bytes()
	if err := bc.AddBlock(b); err != nil {
		return nil, err
	}
	// drop stale notary requests as network.Server does
	h.nPool.RemoveStale(func(t *transaction.Transaction) bool { return bc.IsTxStillRelevant(t, nil, true) }, h.feer)
	h.mu.Lock()
	ms := append([]*memberChain{}, h.members...)
	h.mu.Unlock()
	for _, mc := range ms {
		select {
		case mc.blockCh <- b:
		default:
		}
	}
	return b, nil
}

// ---- deploy.Blockchain implementation ----

// tick is the entry of every chain call: a numbered crash point, and the place where a
// paused member is parked (durably blocked on a channel, so the bubble can go quiescent).
func (m *memberChain) tick(name string) {
	for {
		m.h.mu.Lock()
		ch := m.h.paused[m.idx]
		if ch == nil {
			m.ncalls++
			m.h.calls[name]++
			crash := m.crashAt > 0 && m.ncalls == m.crashAt
			m.h.mu.Unlock()
			if crash && m.cancel != nil {
				m.cancel()
			}
			return
		}
		m.h.mu.Unlock()
		<-ch
	}
}

func (m *memberChain) run(script []byte, signers []transaction.Signer) (*result.Invoke, error) {
	tx := &transaction.Transaction{Script: script, Signers: signers}
	if len(tx.Signers) == 0 {
		tx.Signers = []transaction.Signer{{Account: util.Uint160{}, Scopes: transaction.None}}
	}
	ic, err := m.h.bc.GetTestVM(trigger.Application, tx, nil)
	if err != nil {
		return nil, err
	}
	defer ic.Finalize()
	ic.VM.GasLimit = 100_0000_0000
	ic.VM.LoadScriptWithFlags(script, callflag.All)
	err = ic.VM.Run()
	var fe string
	if err != nil {
		fe = err.Error()
	}
	items := ic.VM.Estack().ToArray()
	for i := range items {
		if iterator.IsIterator(items[i]) {
			vals, trunc := iterator.ValuesTruncated(items[i], 2048)
			items[i] = stackitem.NewInterop(result.Iterator{Values: vals, Truncated: trunc})
		}
	}
	notifs := ic.Notifications
	if notifs == nil {
		notifs = []state.NotificationEvent{}
	}
	return &result.Invoke{State: ic.VM.State().String(), GasConsumed: ic.VM.GasConsumed(), Script: script, Stack: items, FaultException: fe, Notifications: notifs}, nil
}

func (m *memberChain) InvokeContractVerify(contract util.Uint160, params []smartcontract.Parameter, signers []transaction.Signer, witnesses ...transaction.Witness) (*result.Invoke, error) {
	m.tick("InvokeContractVerify")
	return nil, errors.New("InvokeContractVerify not implemented in spike")
}

func (m *memberChain) InvokeFunction(contract util.Uint160, operation string, params []smartcontract.Parameter, signers []transaction.Signer) (*result.Invoke, error) {
	m.tick("InvokeFunction")
	args := make([]any, len(params))
	for i := range params {
		a, err := smartcontract.ExpandParameterToEmitable(params[i])
		if err != nil {
			return nil, err
		}
		args[i] = a
	}
	script, err := smartcontract.CreateCallScript(contract, operation, args...)
	if err != nil {
		return nil, err
	}
	return m.run(script, signers)
}

func (m *memberChain) InvokeScript(script []byte, signers []transaction.Signer) (*result.Invoke, error) {
	m.tick("InvokeScript")
	return m.run(script, signers)
}

func (m *memberChain) TerminateSession(sessionID uuid.UUID) (bool, error) { return false, nil }
func (m *memberChain) TraverseIterator(sessionID, iteratorID uuid.UUID, maxItemsCount int) ([]stackitem.Item, error) {
	return nil, errors.New("no sessions")
}

func (m *memberChain) CalculateNetworkFee(tx *transaction.Transaction) (int64, error) {
	m.tick("CalculateNetworkFee")
	bc := m.h.bc
	tx, err0 := transaction.NewTransactionFromBytes(tx.Bytes())
	if err0 != nil {
		return 0, err0
	}
	hashable, err := tx.EncodeHashableFields()
	if err != nil {
		return 0, err
	}
	size := len(hashable) + io.GetVarSize(len(tx.Signers))
	var netFee int64
	gasLimit := bc.GetMaxVerificationGAS()
	for i, signer := range tx.Signers {
		w := tx.Scripts[i]
		if len(w.InvocationScript) == 0 {
			var paramz []manifest.Parameter
			if len(w.VerificationScript) == 0 {
				cs := bc.GetContractState(signer.Account)
				if cs == nil {
					return 0, neorpc.WrapErrorWithData(neorpc.ErrInvalidVerificationFunction, fmt.Sprintf("signer %d has no verification script and no deployed contract", i))
				}
				md := cs.Manifest.ABI.GetMethod(manifest.MethodVerify, -1)
				if md == nil || md.ReturnType != smartcontract.BoolType {
					return 0, neorpc.WrapErrorWithData(neorpc.ErrInvalidVerificationFunction, "no verify")
				}
				paramz = md.Parameters
			} else {
				if vm.IsSignatureContract(w.VerificationScript) {
					paramz = []manifest.Parameter{{Type: smartcontract.SignatureType}}
				} else if nSigs, _, ok := vm.ParseMultiSigContract(w.VerificationScript); ok {
					paramz = make([]manifest.Parameter, nSigs)
					for j := range paramz {
						paramz[j] = manifest.Parameter{Type: smartcontract.SignatureType}
					}
				}
			}
			inv := io.NewBufBinWriter()
			for _, p := range paramz {
				p.Type.EncodeDefaultValue(inv.BinWriter)
			}
			w.InvocationScript = inv.Bytes()
		}
		gasConsumed, err := bc.VerifyWitness(signer.Account, tx, &w, gasLimit)
		if err != nil && !errors.Is(err, core.ErrInvalidSignature) {
			return 0, neorpc.WrapErrorWithData(neorpc.ErrInvalidSignature, fmt.Sprintf("witness %d: %s", i, err))
		}
		gasLimit -= gasConsumed
		netFee += gasConsumed
		size += io.GetVarSize(w.VerificationScript) + io.GetVarSize(w.InvocationScript)
	}
	netFee += int64(size)*bc.FeePerByte() + bc.CalculateAttributesFee(tx)
	return netFee, nil
}

func (m *memberChain) GetBlockCount() (uint32, error) {
	m.tick("GetBlockCount")
	return m.h.bc.BlockHeight() + 1, nil
}

func (m *memberChain) GetVersion() (*result.Version, error) {
	m.tick("GetVersion")
	cfg := m.h.cfg
	return &result.Version{
		Protocol: result.Protocol{
			AddressVersion: address.NEO3Prefix, Network: cfg.Magic, MillisecondsPerBlock: blockMs,
			MaxTraceableBlocks: cfg.MaxTraceableBlocks, MaxValidUntilBlockIncrement: cfg.MaxValidUntilBlockIncrement,
			MaxTransactionsPerBlock: 512, MemoryPoolMaxTransactions: cfg.MemPoolSize,
			ValidatorsCount: byte(cfg.ValidatorsCount), InitialGasDistribution: cfg.InitialGASSupply,
			StandbyCommittee: m.h.pubs, P2PSigExtensions: true,
		},
	}, nil
}

func mapRelayErr(err error) error {
	switch {
	case err == nil:
		return nil
	case errors.Is(err, core.ErrTxExpired):
		return neorpc.WrapErrorWithData(neorpc.ErrExpiredTransaction, err.Error())
	case errors.Is(err, core.ErrAlreadyExists) || errors.Is(err, core.ErrInvalidBlockIndex):
		return neorpc.WrapErrorWithData(neorpc.ErrAlreadyExists, err.Error())
	case errors.Is(err, core.ErrAlreadyInPool):
		return neorpc.WrapErrorWithData(neorpc.ErrAlreadyInPool, err.Error())
	case errors.Is(err, core.ErrOOM):
		return neorpc.WrapErrorWithData(neorpc.ErrMempoolCapReached, err.Error())
	case errors.Is(err, core.ErrPolicy):
		return neorpc.WrapErrorWithData(neorpc.ErrPolicyFailed, err.Error())
	case errors.Is(err, core.ErrInvalidScript):
		return neorpc.WrapErrorWithData(neorpc.ErrInvalidScript, err.Error())
	case errors.Is(err, core.ErrTxTooBig):
		return neorpc.WrapErrorWithData(neorpc.ErrInvalidSize, err.Error())
	case errors.Is(err, core.ErrTxSmallNetworkFee):
		return neorpc.WrapErrorWithData(neorpc.ErrInsufficientNetworkFee, err.Error())
	case errors.Is(err, core.ErrInvalidAttribute):
		return neorpc.WrapErrorWithData(neorpc.ErrInvalidAttribute, err.Error())
	case errors.Is(err, core.ErrInsufficientFunds), errors.Is(err, core.ErrMemPoolConflict):
		return neorpc.WrapErrorWithData(neorpc.ErrInsufficientFunds, err.Error())
	case errors.Is(err, core.ErrInvalidSignature):
		return neorpc.WrapErrorWithData(neorpc.ErrInvalidSignature, err.Error())
	default:
		return neorpc.WrapErrorWithData(neorpc.ErrVerificationFailed, err.Error())
	}
}

func (m *memberChain) SendRawTransaction(tx *transaction.Transaction) (util.Uint256, error) {
	m.tick("SendRawTransaction")
	tx, err0 := transaction.NewTransactionFromBytes(tx.Bytes())
	if err0 != nil {
		return util.Uint256{}, err0
	}
	err := m.h.bc.PoolTx(tx)
	m.h.record(m, "tx", tx, err)
	if err != nil {
		return util.Uint256{}, mapRelayErr(err)
	}
	return tx.Hash(), nil
}

func (m *memberChain) SubmitP2PNotaryRequest(req *payload.P2PNotaryRequest) (util.Uint256, error) {
	m.tick("SubmitP2PNotaryRequest")
	bc := m.h.bc
	rb, err0 := req.Bytes()
	if err0 != nil {
		return util.Uint256{}, err0
	}
	req, err0 = payload.NewP2PNotaryRequestFromBytes(rb)
	if err0 != nil {
		return util.Uint256{}, err0
	}
	verify := func(_ *transaction.Transaction, data any) error {
		r := data.(*payload.P2PNotaryRequest)
		payer := r.FallbackTransaction.Signers[1].Account
		if _, err := bc.VerifyWitness(payer, r, &r.Witness, bc.GetMaxVerificationGAS()); err != nil {
			return fmt.Errorf("bad P2PNotaryRequest payload witness: %w", err)
		}
		notaryHash := bc.GetNotaryContractScriptHash()
		if r.FallbackTransaction.Sender() != notaryHash {
			return errors.New("P2PNotary contract should be a sender of the fallback transaction")
		}
		if r.MainTransaction.Sender() == notaryHash {
			return errors.New("P2PNotary contract is not allowed to be the sender of the main transaction")
		}
		depositExpiration := bc.GetNotaryDepositExpiration(payer)
		if r.FallbackTransaction.ValidUntilBlock >= depositExpiration {
			return fmt.Errorf("fallback transaction is valid after deposit is unlocked: ValidUntilBlock is %d, deposit expires at %d", r.FallbackTransaction.ValidUntilBlock, depositExpiration)
		}
		return nil
	}
	err := bc.PoolTxWithData(req.FallbackTransaction, req, m.h.nPool, m.h.feer, verify)
	m.h.record(m, "notary-request", req.MainTransaction, err)
	if err != nil {
		return util.Uint256{}, mapRelayErr(err)
	}
	return req.FallbackTransaction.Hash(), nil
}

func (m *memberChain) GetApplicationLog(h util.Uint256, trig *trigger.Type) (*result.ApplicationLog, error) {
	m.tick("GetApplicationLog")
	t := trigger.All
	if trig != nil {
		t = *trig
	}
	aers, err := m.h.bc.GetAppExecResults(h, t)
	if err != nil {
		return nil, neorpc.WrapErrorWithData(neorpc.ErrUnknownScriptContainer, err.Error())
	}
	res := result.NewApplicationLog(h, aers, t)
	return &res, nil
}

func (m *memberChain) Context() context.Context { return context.Background() }

func (m *memberChain) GetCommittee() (keys.PublicKeys, error) {
	m.tick("GetCommittee")
	return m.h.bc.GetCommittee()
}

func (m *memberChain) GetContractStateByID(id int32) (*state.Contract, error) {
	m.tick("GetContractStateByID")
	h, err := m.h.bc.GetContractScriptHash(id)
	if err != nil {
		return nil, neorpc.ErrUnknownContract
	}
	cs := m.h.bc.GetContractState(h)
	if cs == nil {
		return nil, neorpc.ErrUnknownContract
	}
	return cs, nil
}

func (m *memberChain) GetContractStateByHash(h util.Uint160) (*state.Contract, error) {
	m.tick("GetContractStateByHash")
	cs := m.h.bc.GetContractState(h)
	if cs == nil {
		return nil, neorpc.ErrUnknownContract
	}
	return cs, nil
}

func (m *memberChain) SubscribeToNewBlocks() (<-chan *block.Block, error) { return m.blockCh, nil }
func (m *memberChain) SubscribeToNotaryRequests() (<-chan *result.NotaryRequestEvent, error) {
	return m.nreqCh, nil
}

func scriptFor(contract util.Uint160, method string, args ...any) []byte {
	w := io.NewBufBinWriter()
	emit.AppCall(w.BinWriter, contract, method, callflag.All, args...)
	if w.Err != nil {
		panic(w.Err)
	}
	return w.Bytes()
}
