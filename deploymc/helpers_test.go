//go:build verif

package deploymc

import (
	"encoding/base64"
	"encoding/json"
	"fmt"
	"math"
	"os"
	"path/filepath"
	"sync"
	"testing"

	"github.com/nspcc-dev/neo-go/pkg/core/transaction"
	"github.com/nspcc-dev/neo-go/pkg/neorpc/result"
	"github.com/nspcc-dev/neo-go/pkg/util"
	"github.com/nspcc-dev/neofs-contract/deploy"
)

type helperReport struct {
	Funds, Heights, Codec int
	HeightsExhaustive    bool
	Violations           []map[string]any
}

// TestC13Helpers enumerates the inputs of the three pure helpers exhaustively.
func TestC13Helpers(t *testing.T) {
	out := os.Getenv("C13_OUT")
	if out == "" {
		t.Skip("C13_OUT not set")
	}
	tier := os.Getenv("VERIF_TIER")
	rep := &helperReport{}
	var mu sync.Mutex
	viol := func(class string, where map[string]any, msg string) {
		mu.Lock()
		if len(rep.Violations) < 20 {
			rep.Violations = append(rep.Violations, map[string]any{"class": class, "where": where, "msg": msg})
		}
		mu.Unlock()
	}
	// ---- fund arithmetic: shares sum to the input, differ by at most one, zero shares are not emitted ----
	var amounts []uint64
	for a := uint64(0); a <= 4096; a++ {
		amounts = append(amounts, a)
	}
	for k := uint(13); k < 64; k++ {
		amounts = append(amounts, 1<<k-1, 1<<k, 1<<k+1)
	}
	for j := uint64(0); j < 70; j++ {
		amounts = append(amounts, math.MaxUint64-j)
	}
	for _, a := range amounts {
		for n := 1; n <= 64; n++ {
			rep.Funds++
			// the statement: shares sum to the input and differ by at most one (a receiver that is not called gets 0);
			// which receivers get the larger shares, and whether a zero share is announced, is free
			shares := make([]uint64, n)
			var sum uint64
			bad := ""
			deploy.VerifDivideFundsEvenly(a, n, func(ind int, amount uint64) {
				if ind < 0 || ind >= n {
					bad = fmt.Sprintf("receiver index %d out of 0..%d", ind, n-1)
					return
				}
				shares[ind] += amount
				sum += amount
			})
			min, max := uint64(math.MaxUint64), uint64(0)
			for _, sh := range shares {
				if sh < min {
					min = sh
				}
				if sh > max {
					max = sh
				}
			}
			switch {
			case bad != "":
			case sum != a:
				bad = fmt.Sprintf("shares sum to %d", sum)
			case max-min > 1:
				bad = fmt.Sprintf("shares differ by %d", max-min)
			}
			if bad != "" {
				viol("fund-arithmetic", map[string]any{"helper": "divideFundsEvenly"}, fmt.Sprintf("divideFundsEvenly(%d, %d): %s", a, n, bad))
			}
		}
	}
	// ---- nonce / validity window ----
	checkHeight := func(h uint32) {
		tx := &transaction.Transaction{}
		mod := deploy.VerifRuntimeTransactionModifier(func() uint32 { return h })
		if err := mod(&result.Invoke{State: "HALT"}, tx); err != nil {
			viol("tx-window", map[string]any{"helper": "neoFSRuntimeTransactionModifier"}, fmt.Sprintf("height %d: %v", h, err))
			return
		}
		nonce := h / 100 * 100
		vub := uint64(nonce) + 100
		saturated := vub > math.MaxUint32-1 // the top window cannot be a full span
		ok := tx.Nonce == nonce
		if saturated {
			ok = ok && tx.ValidUntilBlock == math.MaxUint32
		} else {
			ok = ok && uint64(tx.ValidUntilBlock) == vub && tx.Nonce <= h && h < tx.ValidUntilBlock
		}
		if !ok {
			viol("tx-window", map[string]any{"helper": "neoFSRuntimeTransactionModifier"}, fmt.Sprintf("height %d: nonce %d validUntilBlock %d", h, tx.Nonce, tx.ValidUntilBlock))
		}
	}
	if tier == "thorough" {
		rep.HeightsExhaustive = true
		var wg sync.WaitGroup
		const shards = 16
		for s := 0; s < shards; s++ {
			wg.Add(1)
			go func(s int) {
				defer wg.Done()
				lo, hi := uint64(s)<<28, uint64(s+1)<<28
				for h := lo; h < hi; h++ {
					checkHeight(uint32(h))
				}
			}(s)
		}
		wg.Wait()
		rep.Heights = 1 << 32
	} else {
		seen := map[uint32]bool{}
		try := func(c uint64) {
			for d := int64(-300); d <= 300; d++ {
				v := int64(c) + d
				if v < 0 || v > math.MaxUint32 {
					continue
				}
				if !seen[uint32(v)] {
					seen[uint32(v)] = true
					checkHeight(uint32(v))
				}
			}
		}
		for k := uint(0); k <= 32; k++ {
			try(1 << k)
		}
		for p := uint64(1); p <= 10_000_000_000; p *= 10 {
			try(p)
		}
		for h := uint64(math.MaxUint32) - 1<<20; h <= math.MaxUint32; h++ {
			if !seen[uint32(h)] {
				seen[uint32(h)] = true
				checkHeight(uint32(h))
			}
		}
		rep.Heights = len(seen)
	}
	ir := &result.Invoke{State: "FAULT", FaultException: "x"}
	if err := deploy.VerifRuntimeTransactionModifier(func() uint32 { return 5 })(ir, &transaction.Transaction{}); err == nil {
		viol("tx-window", map[string]any{"helper": "neoFSRuntimeTransactionModifier"}, "a FAULT invocation result was accepted")
	}
	// ---- shared transaction data codec ----
	h1, _ := util.Uint160DecodeStringLE("0102030405060708090a0b0c0d0e0f1011121314")
	h2, _ := util.Uint160DecodeStringLE("ffeeddccbbaa99887766554433221100ffeeddcc")
	senders := []util.Uint160{{}, {1}, {0xff, 0xff, 0xff, 0xff, 0xff, 0xff, 0xff, 0xff, 0xff, 0xff, 0xff, 0xff, 0xff, 0xff, 0xff, 0xff, 0xff, 0xff, 0xff, 0xff}, h1, h2}
	nums := []uint32{0, 1, 255, 256, 257, 65535, 65536, 65537, 1 << 31, math.MaxUint32}
	sums := map[string]string{}
	payload := []byte("signature-bytes-0123456789")
	for _, s := range senders {
		for _, v := range nums {
			for _, nn := range nums {
				rep.Codec++
				x := deploy.VerifSharedTxData{Sender: s, ValidUntilBlock: v, Nonce: nn}
				y, err := deploy.VerifDecodeSharedTxData(x.Encode())
				if err != nil || y != x {
					viol("codec", map[string]any{"helper": "sharedTransactionData"}, fmt.Sprintf("decode(encode(%v)) = %v, %v", x, y, err))
				}
				ok, rest := x.ShiftChecksum(x.UnshiftChecksum(payload))
				if !ok || string(rest) != string(payload) {
					viol("codec", map[string]any{"helper": "sharedTransactionData"}, fmt.Sprintf("shiftChecksum(unshiftChecksum(p)) = %v, %q for %v", ok, rest, x))
				}
				sum := fmt.Sprintf("%x", x.UnshiftChecksum(nil))
				if prev, dup := sums[sum]; dup && prev != fmt.Sprint(x) {
					viol("codec", map[string]any{"helper": "sharedTransactionData"}, fmt.Sprintf("checksums of %s and %v collide", prev, x))
				}
				sums[sum] = fmt.Sprint(x)
				// a signature prefixed with another tuple's checksum must not be taken
				z := deploy.VerifSharedTxData{Sender: s, ValidUntilBlock: v + 1, Nonce: nn}
				if ok2, _ := z.ShiftChecksum(x.UnshiftChecksum(payload)); ok2 {
					viol("codec", map[string]any{"helper": "sharedTransactionData"}, fmt.Sprintf("checksum of %v accepted for %v", x, z))
				}
			}
		}
	}
	for l := 0; l <= 64; l++ {
		rep.Codec++
		if _, err := deploy.VerifDecodeSharedTxData(base64.StdEncoding.EncodeToString(make([]byte, l))); (err == nil) != (l == 28) {
			viol("codec", map[string]any{"helper": "sharedTransactionData"}, fmt.Sprintf("decode of %d bytes: err=%v", l, err))
		}
	}
	if _, err := deploy.VerifDecodeSharedTxData("not base64 !!!"); err == nil {
		viol("codec", map[string]any{"helper": "sharedTransactionData"}, "non-base64 input accepted")
	}
	b, _ := json.MarshalIndent(rep, "", " ")
	if err := os.WriteFile(filepath.Join(out, "helpers.json"), b, 0o644); err != nil {
		t.Fatal(err)
	}
}
