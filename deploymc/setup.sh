#!/bin/bash
# pre-builds the deploymc test binary (go1.26.8, testing/synctest) so that the first check run is fast
set -eu
HERE=$(cd "$(dirname "$0")" && pwd)
VERIF=$(dirname "$HERE")
export GOFLAGS=-mod=mod GOPROXY=off GOSUMDB=off GOTOOLCHAIN=local
W=$(mktemp -d /var/tmp/verif-c13-setup-XXXXXX)
trap 'rm -rf "$W"' EXIT
printf '{"Replace": {"/repo/deploy/zz_export_verif.go": "%s/hooks/deploy_export_verif.go"}}\n' "$VERIF" > "$W/overlay.json"
(cd "$HERE" && go1.26.8 test -tags verif -overlay "$W/overlay.json" -vet=off -c -o "$VERIF/bin/deploymc.test" .)
