#!/usr/bin/env python3
"""Turns the deploymc reports into evidence/C13.json, KNOWN-FINDING / VIOLATION lines and an exit code."""
import json, sys, hashlib, os

work, verif, tier, seed, wall = sys.argv[1], sys.argv[2], sys.argv[3], int(sys.argv[4] or 0), float(sys.argv[5])
rep = json.load(open(os.path.join(work, "report.json")))
hlp = json.load(open(os.path.join(work, "helpers.json")))
known = []
try:
    known = [k for k in json.load(open(os.path.join(verif, "known_findings.json"))) if k.get("property") == "C13" and not k.get("fixed")]
except Exception:
    pass

def match(v):
    for k in known:
        if k["class"] == v["class"] and all(str(v["where"].get(a)) == str(b) for a, b in (k.get("where") or {}).items()):
            return k
    return None

viols = list(rep.get("violations") or []) + [dict(v, schedule=None) for v in (hlp.get("Violations") or [])]
unknown, seen_known = [], {}
for v in viols:
    k = match(v)
    if k:
        seen_known.setdefault(k["id"], [k, 0, v])
        seen_known[k["id"]][1] += 1
    else:
        unknown.append(v)

if rep.get("harness_errors") and not unknown:
    # (a violation found before the harness gave up is still a violation: it is reported below)
    print("HARNESS ERROR:", rep["harness_errors"][:3], file=sys.stderr)
    sys.exit(2)

runs = rep["runs"]
evals = runs + hlp["Funds"] + hlp["Heights"] + hlp["Codec"]
cov = {
    "states": rep["distinct_outcomes"] + runs,  # every run ends in one explored terminal state of the protocol
    "transitions": sum((r.get("rounds") or 0) for r in rep["default_runs"].values()) + runs,
    "traces_validated_against_impl": runs,  # every schedule IS an execution of the real deploy.Deploy
    "evaluations": evals,
    "distinct_nontrivial": rep["distinct_outcomes"] + len(rep["runs_by_kind"]),
    "rule": "stateless exploration of the real deploy.Deploy (n concurrent members on one in-process chain with Notary services, virtual time under testing/synctest) by iterative deviation bounding: the default schedule, then every enumerated schedule with one deviation (sleep / crash-restart / adjacent reorder / absent minority), then pairs; plus exhaustive input grids of the three pure helpers; distinct = distinct (n, length, Notary round, verdict) outcomes + schedule classes",
    "samples": rep["samples"],
    "exhaustive": False,
    "bound_completed": rep["bound_completed"],
    "schedules_run": runs,
    "runs_by_kind": rep["runs_by_kind"],
    "default_schedule": {n: {"rounds": r["rounds"], "finished": r["finished"], "notary_round": r["notary_round"], "rerun_submissions": r["rerun_submissions"]} for n, r in rep["default_runs"].items()},
    "determinism_self_check": rep["determinism"],
    "helper_grids": {"divideFundsEvenly": hlp["Funds"], "neoFSRuntimeTransactionModifier_heights": hlp["Heights"], "heights_exhaustive_2^32": hlp["HeightsExhaustive"], "sharedTransactionData_codec": hlp["Codec"]},
    "known_findings_seen": {k: v[1] for k, v in seen_known.items()},
}
ev = {"property_id": "C13", "tier": tier, "seed": seed, "level": "model_checking", "coverage": cov, "wall_s": wall, "violations": len(unknown),
      "assumptions": ["neo-go v0.107.0 chain, mempool and Notary service are trusted", "the harness's deploy.Blockchain implementation stands in for an RPC node (every transaction and notary request is round-tripped through its wire encoding)",
                      "the embedded executables (contracts.GetFS) are what is deployed", "rand nonces change hashes only; transactions are ordered by submission, never by hash",
                      "schedules with more deviations than the completed bound, lost RPC answers and real network faults are not explored"]}
# VERIF_EVIDENCE_DIR: used by tools/ when a run is made against a deliberately changed tree
evdir = os.environ.get("VERIF_EVIDENCE_DIR") or os.path.join(verif, "evidence")
os.makedirs(evdir, exist_ok=True)
json.dump(ev, open(os.path.join(evdir, "C13.json"), "w"), indent=1)
print("C13 %s: schedules=%d by_kind=%s default=%s helpers=%s bound='%s' wall=%.0fs" % (tier, runs, rep["runs_by_kind"], {n: r["rounds"] for n, r in rep["default_runs"].items()}, cov["helper_grids"], rep["bound_completed"], wall))
for kid, (k, cnt, v) in seen_known.items():
    print("KNOWN-FINDING: property=C13 %s [%s; %d hits]" % (k["what"], kid, cnt))
if not unknown:
    sys.exit(0)
done = set()
for v in unknown:
    key = v["class"] + json.dumps(v["where"], sort_keys=True)
    if key in done:
        continue
    done.add(key)
    body = {"property": "C13", "driver": "deploymc", "class": v["class"], "where": v["where"], "msg": v["msg"], "case": v.get("schedule"), "params": {"tier": tier}}
    b = json.dumps(body, indent=1)
    p = os.path.join(verif, "replays", "C13-%s.json" % hashlib.sha256(b.encode()).hexdigest()[:12])
    os.makedirs(os.path.dirname(p), exist_ok=True)
    open(p, "w").write(b)
    print("  %s %s: %s" % (v["class"], v["where"], v["msg"][:400]))
    print("  schedule: %s" % json.dumps(v.get("schedule")))
    print("VIOLATION property=C13 replay=%s" % p)
sys.exit(1)
