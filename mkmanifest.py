#!/usr/bin/env python3
"""Regenerates MANIFEST.json from the table below (keeps it valid while checks are added)."""
import json, sys

BASE = "trusted: neo-go v0.107.0 VM/ledger/native contracts and compiler library; contracts are compiled from the working tree at check time; the layered executor is bound to real signed blocks by replaying explored traces (traces_validated_against_impl)"

CHECKS = {
 "C01": ("chainmc", "two explicit-state BFS explorations over operation sequences on the real Balance+Netmap bytecode (the full alphabet; a small alphabet around accounts that are emptied and re-created, searched deeper), lock-step reference model + storage invariants",
         "all sequences up to depth 4 (quick) / 7 (thorough) over a 75-operation alphabet (mint/burn/transfer/transferX/lock/ticks; negative, zero, exact, over-balance and 2^70 amounts; wrong-length addresses; contract caller), state-deduplicated; every transition checks sum==totalSupply, no negative record, supply moves only by mint/burn, refused => empty diff, notification stream replays to the balances, agreement with a map-based model; second exploration to depth 6 / 9 over 14 operations (whole-balance locks, burns and transfers of two owners, ticks): owners without an account record released by one tick", "4.1"),
 "C02": ("chainmc", "explicit-state BFS over (from,to,amount,signer-set) transfers interleaved with Alphabet operations; authorisation oracle on every balance decrease",
         "all sequences up to depth 4 / 6 over ~210 operations on a 3-key committee: every transfer crossed with signer sets {from,to,stranger,Alphabet,from+Alphabet,nobody}, committee-majority signers on the Alphabet-only methods, contract callers and contract-owned accounts (the token's own hash) debited from outside, wrong-length hashes; every decrease of any account must be covered by its witness, its own contract call or the Alphabet", "4.2"),
 "C04": ("chainmc", "explicit-state BFS over put/putNamed/putMeta/delete/setEACL/time sequences on Container+NNS+Balance+Netmap+NeoFSID, lock-step registry model + raw storage scan",
         "all sequences up to depth 5 / 8 over 2 owners x 4 blobs (two version-field offsets) x names (registered by the contract, or on a domain the committee registered in advance), strangers, a 10-year clock jump; after every step every getter for every id (incl. a never-put one), list/containersOf/count as sets, NNS alias records, tombstones and a raw scan of all six key families", "4.4"),
 "C06": ("chainmc", "three explicit-state BFS explorations over candidate/subscription/tick/next-block sequences (Netmap+Balance+probe subscribers on a 1-key committee; bare Netmap+probes on a 3-key committee with majority signers; a Netmap that keeps the longest history, 256 maps, with epoch steps of 1/2/126/127/128/255), lock-step model",
         "all sequences up to depth 5 / 7: newEpoch with epoch deltas -1/0/+1/+2/+3, jumps to 256 x epoch and to epoch + 2^32, by Alphabet/stranger/node, two probe subscribers (one rejects epoch 3), double and unauthorised subscriptions, several transactions per block and block advances; success iff witnessed, growing and not rejected; published maps in both formats, tick height, subscriber order, Balance unlock effect", "4.6"),
 "C07": ("chainmc", "explicit-state BFS to fixpoint over the complete reachable candidate state space (2 keys x 2 lists x states x info versions) x all operations x signer sets",
         "exhaustive on a 3-key committee: the frontier runs empty (961 states, ~105k transitions) with signer sets {node+Alphabet, Alphabet, node, Alphabet+other node, stranger, majority+node, majority}; both candidate lists, notifications, witness requirements, unknown states and malformed keys compared with a two-map model", "4.7"),
 "C08": ("chainmc", "explicit-state BFS over tick^a resize tick^b resize tick^c histories (prefix tree with state de-duplication) against a slice-of-maps model with a keep counter, plus an exhaustive grid of long linear histories (tick^p, resize to a count around one byte, 300 more ticks) under the same per-step oracle",
         "quick: counts {0,1,2,3,5,9,10,11,12}, <=14 epochs, <=2 resizes; thorough: counts 0..12, <=30 epochs; after every step snapshot(d) for all d, snapshotByEpoch/listNodes(e) for a window of epochs, netmap(), raw scan of ring slots and per-epoch lists, and a probe tick after every accepted resize", "4.8"),
 "C09": ("chainmc", "explicit-state BFS over lock/burn/transfer/tick sequences with up to 3 simultaneous locks, lock-step model of lock records",
         "all sequences up to depth 5 / 8; until in the past/present/future and 0, zero-amount locks, partial and full burns, ticks by +1/+2, direct balance.newEpoch; every tick must release exactly the expired locks, once, with the remaining balance", "4.9"),

 "C10": ("chainmc", "explicit-state BFS over register/registerTLD/transfer/renew/setAdmin/time-step sequences on the real NNS bytecode, lock-step ownership model",
         "all sequences up to depth 5 / 7 over 5 names (2nd..4th level, two TLDs), 3 owners, a contract receiver, an admin, wrong-signer variants, clock steps to exp-1/exp/exp+1 of the earliest-expiring name and +1 year, receiver contracts that accept, pass the name on from inside the callback, or refuse, a TLD that lives 2000 s only, names close to the ten-year cap; after every step totalSupply, balanceOf, tokensOf, ownerOf, properties (expiration, admin), isAvailable for every name and every top-level name, Transfer notifications", "4.10"),
 "C11": ("chainmc", "explicit-state BFS over ownership histories crossed with every mutating NNS method under signer sets {owner, former owner, admin, stranger, committee, Alphabet, new owner+admin}",
         "all sequences up to depth 3 / 5 over ~150 operations on a 3-key committee (majority account differs from the Alphabet account) and, in two more explorations, on a 4-key committee with a half-size multisig and on a three-level chain of names with three owners whose middle name runs out first: fresh second-level names for owners that do not witness, records, SOA, renew, setAdmin, transfer, sub-name registration, registerTLD, setPrice, TLD operations; an unauthorised call must fault with an empty storage diff, an authorised one must succeed with exactly the modelled effect", "4.11"),
 "C12": ("chainmc", "three explicit-state BFS explorations (record lists incl. sub-names/conflicts/SOA/expiry; a mid-level name expiring under a live parent; CNAME graphs) against a record-list model keyed by the enclosing registered name",
         "records: all sequences up to depth 3 / 5 over add/set/delete on a name, its unregistered sub-name and a sub-sub-name, four types, the 16th/17th value, duplicates, SOA, registration conflicts, expiry and take-over, one block per mutation so SOA serials are distinguishable; CNAME: all sequences up to depth 5 / 16 over edges among five names forming chains of 0..4 links, a 2-cycle, a self-loop, a target kept under another name; after every step getRecords, getAllRecords (order, ids), resolve with and without trailing dot for every name and type", "4.12"),
 "C14": ("chainmc", "explicit-state BFS over roster histories (add batches crossing the 127/255/256 counter boundaries, commits) plus an exhaustive grid of signature matrices from a symbol menu, against an independent ECDSA oracle",
         "roster: all add/commit sequences up to depth 4 / 6 with batches of 1, 2, 127, 128, 129 keys over three vectors, strangers, malformed keys and ids; nodes(), replicasNumbers() and the raw pending roster compared in order after every step. signatures: every matrix with <= REP+1 slots per vector over {distinct members, byte-identical repeat, malleated twin of the same member, non-member, member of the other vector, other message, junk}, REP 1..4 x 1..2, missing vectors; accepted => REP distinct members verified (Go crypto), submitObjectPut halts iff verification accepts, honest matrix accepted", "4.14"),
 "C18": ("chainmc", "exhaustive enumeration of candidate strings (all strings up to length 5/7 over a 10-symbol alphabet, structured IPv4/IPv6/name/TXT grids) through every validating NNS entry point, against independent Go validators (regexp, netip)",
         "quick 2.5e5 / thorough 1.1e7 candidates, each through addRecord and setRecord (and isAvailable/register/registerTLD for names) on the real bytecode from one base state; accepted <=> the independent reference accepts; a rejection must leave an empty storage diff", "4.18"),
 "C17": ("chainmc", "explicit-state BFS over vote/stranger/advance-blocks sequences on the NeoFS contract deployed without Notary, one exploration per Alphabet size, against a ballot model (voter set + height of the last counted vote)",
         "two-ballot timing exploration (setConfig votes for two ids, waits of 1/10/19/21 blocks) to depth 6 / 8 for n=2 (thorough also n=4); n=1..4 (quick) / 1..7 (thorough): all sequences up to threshold+2 / threshold+3 invocations of setConfig (two competing ids), cheque, alphabetUpdate and innerRingCandidateRemove by every member, a stranger and the candidate, with block gaps 1/19/20/21 and several votes per block; for n>=3 new voters are introduced in index order (the contract only compares keys for equality), n=3 additionally in every order in the thorough tier; the effect (config value, GAS at payee and contract, Alphabet list, candidate list, exactly one notification) must happen in exactly the invocation that completes floor(2n/3)+1 distinct votes", "4.17"),
 "C05": ("chainmc", "exhaustive grid over fee settings x Alphabet sizes {1,4,7} (and Inner Rings of 3 and 7 keys around Alphabets of 1 and 4) x owner-balance boundaries x naming modes x short histories, exact balance-delta oracle",
         "3360 cases: ContainerFee {0,1,7} x ContainerAliasFee {0,3} x {unnamed, new name, name reused after delete, domain registered in advance} x balance {T-1,T,T+1,2T-1,2T} x history {put; put,put; put,setConfig(fee'),put; put,setConfig(0),put; put, the same container put again} plus Alphabet-node-as-owner rows, the five-argument put and puts without a session token; exact debit of the owner, exact credit of every Alphabet node account, N TransferX notifications with container-fee details, container stored; below the threshold the call must fault with an empty diff of all contracts", "4.5"),
 "C19": ("chainmc", "six explicit-state BFS explorations of the NeoFS/Processing GAS ledger (Notary on with 1, 3 and 4 keys; off with 1, 2 and 4 stored keys, where decisions are vote-collected) against a ledger model on the real native GAS balances, plus an exhaustive emit/acceptance grid",
         "ledger: all sequences up to depth 4 / 6 over deposits (0, 1, 9000 GAS, 9000 GAS+1; receiver data nil/20/19 bytes/ignore marker; foreign signer), direct and non-GAS payment-hook calls, withdraw (-1,0,1,9000,9001; owner/stranger), cheque, candidate add/remove, fee changes; contract GAS == received - cheques, exact fees to the right payees, Deposit notification <=> GAS transfer, refused => empty diff on contracts and GAS. emit: Alphabet contract index {0,2} x Inner Ring size 1..7 x g in [0,256]/[0,4096] plus powers of 2/10 boundaries up to 10^12 x signer {own node, other node, Alphabet multisig, stranger}: exact shares, conservation, g<2 faults; Proxy/Processing/Alphabet x {GAS, NEO, non-GAS contract} acceptance", "4.19"),
 "C20": ("chainmc", "seven explicit-state BFS explorations (Reputation, Audit, container size estimations at base epochs 10, 126 and 254, NeoFSID, Netmap/NeoFS configuration) against multiset/map models with all-combination read-back",
         "all put sequences up to depth 3..4 / 4..6 per store (Reputation also with 130 values for one id, past the one-byte running number) over epochs {0,1,127,128,255,256,257,65535,65536} (encodings that are prefixes of one another), 2 containers, 2-3 nodes/peers/owners, 2 values, configuration keys {'',a,ab,abc,b}; after every step every getter and listing for every (epoch, container, node, owner, key) combination; estimation access rules (node of the previous map, witnessed, existing container), audit access rules (Inner Ring member, witnessed), cleanup deltas 3/4 on put and on tick incl. a raw storage scan; an extra list element is tolerated only when explained by the listed epoch-prefix finding", "4.20"),
 "C03": ("chainmc", "exhaustive grid: every method of the eleven manifests compiled from the tree x nine signer sets x committee sizes 1..7, each case executed from one prepared base state, full storage/notification/token diff oracle",
         "5670 witness cases + 12288 argument-variation cases (every witness-requiring row with one argument at a time replaced by a boundary value of its type, signed by a stranger or by one member short of the Alphabet threshold, n=1,3,4: must be inert); witness cases: ~80 non-safe method rows (incl. calls placed in the block right after the NeoFSAlphabet role changed hands) (a hand-written table gives the argument vector and the documented witness requirement; manifest methods without a row are reported as uncovered, never failed) x {stranger, one Alphabet member, Alphabet 2/3+1, committee majority, named key, named key+Alphabet, named key+majority, the Inner Ring member outside the committee, floor(2n/3) single members}: insufficient witnesses => empty diff on all contracts, no notification, no GAS/NEO/NEOFS movement; sufficient => HALT (update: past authorisation, stopped by the version gate); ~90 safe-method rows with all witnesses => empty diff; verify of Proxy/Alphabet/Processing accepts exactly the documented multi-signatures", "4.3"),
 "C15": ("chainmc", "exhaustive enumeration of the finite artefact set (11 scripts, manifests, bindings, deployment order and its transpositions, versions); where a shipped script differs from a fresh compilation, dual-world lock-step exploration (same contract hash, shipped vs fresh executable) of the property drivers plus a method-table x integer-boundary differential",
         "byte comparison of every embedded script/token list/manifest (read through contracts.GetFS/GetMain) with a fresh library compilation; on any script difference the verdict comes from execution: every C03 method row x integer-argument boundary values and the quick BFS explorations of the drivers that involve the contract are run in two worlds and every transition's outcome and successor state must coincide, and so must every case of the exhaustive grids that exercise the contract, among them the upgrade grid (every version x legacy storage case updated once to the sources and once to the shipped executable); GetFS() order deployed on a fresh chain (NNS-resolved dependencies) plus all adjacent transpositions; version() of all embedded and fresh contracts == VERSION; bindings regenerated byte-for-byte and every invoked method/arity matched against the manifest ABI by an independent go/ast pass", "4.15"),
 "C13": ("deploymc", "stateless schedule/crash exploration of the real deploy.Deploy by iterative deviation bounding (default schedule, then all enumerated one-deviation schedules: sleep, crash-restart, adjacent reorder, a transaction held back in the pool, absent minority; thorough: pairs) on an in-process neo-go chain with Notary services under testing/synctest virtual time; exhaustive input grids for the three pure helpers",
         "quick: n=1..4 default (determinism self-check), every sleep(member, round, 1) and every crash at every second round with immediate restart for n<=3, adjacent transaction swaps for n=2, every absent minority for n=3,4 (~1450 complete runs of Deploy); thorough: n=1..7, sleeps of 1/3/150 rounds and crashes with two restart delays for n<=4, call-granular crash points, reorders for n<=3, minorities for n=3..7, two-deviation sleep pairs for n=2, all 2^32 heights of the transaction-window helper; oracle on every final chain: all runs return nil, roles designated to exactly the committee, NNS id 1, every system name resolves to exactly one contract with the supplied executable, 8+n contracts, no designation with an invalid witness ever submitted, a second run submits no deploy/update/register/addRecord/setRecord/designateAsRole and changes nothing", "3"),
 "C16": ("chainmc", "exhaustive grids: (contract x version around both bounds x synthetic legacy storage) driven through an old-version stub that calls management.update so the tree's _deploy(data,true) runs on that storage; and (contract x signer set x committee size) updating the real contracts to a scratch build of the same tree with the patch version +1",
         "recorded dumps (testnet v0.15.4, mainnet v0.16, NNS testnet v0.17): the recorded old executables answer up to 300 reads per contract before, the tree's contract after the committee's update, lenient only where a migration is documented; about 1900 window/migration cases: 11 contracts x {prev-1, prev, prev+1, 15999, 16000, 16999, 17000, 17999, 18000, 18999, 19000, 19999, cur-1, cur, cur+1} x layouts (un-prefixed/prefixed/mixed balance accounts incl. a lock account, un-prefixed/prefixed/mixed container and owner-index keys with eACL and alias, old-format netmap snapshots and candidates with ring sizes 3/10/12 and a ring of 6 with two slots not written yet, update data with a decoy integer in front of the appended version, stored subscriber hashes, owned TLDs with names and records, audit/reputation/neofsid/neofs/alphabet data) x notary flag {absent,false,true} x ballots {absent,empty,stale,fresh}: outside the window => FAULT by the version check with an empty diff; inside => HALT and every read-API answer equals what the generator stored (fresh ballot + notary=true must fault); ~300 gate cases for committees of 1,2,3,4,6,7 (incl. the main-chain contracts right after a role rotation): only the committee majority updates, version()+1, read API unchanged", "4.16"),
}

NOT_YET = "check not built yet in this revision (work in progress; see DESIGN.md section 10)"

def findings_txt():
    """A plain-text rendering of known_findings.json (which the checks read), one line per entry."""
    d = json.load(open("/verif/known_findings.json"))
    lines = ["# generated by mkmanifest.py from known_findings.json; the checks read the JSON file and never write either"]
    for e in d:
        if e.get("fixed"):
            w = e["what"]
            lines.append(w if w.startswith("fixed:") else "fixed: property=%s %s %s" % (e["property"], e.get("commit", ""), w))
        else:
            lines.append("KNOWN-FINDING: property=%s %s [id=%s class=%s where=%s]" % (e["property"], e["what"], e["id"], e["class"], json.dumps(e.get("where", {}), sort_keys=True)))
    open("/verif/known_findings.txt", "w").write("\n".join(lines) + "\n")


def main():
    findings_txt()
    props = [json.loads(l)["id"] for l in open("/verif/properties.jsonl")]
    checks = []
    for pid in props:
        if pid not in CHECKS:
            continue
        engine, technique, text, ref = CHECKS[pid]
        checks.append({
            "property_id": pid,
            "quick_cmd": f"./run.sh {pid} quick",
            "thorough_cmd": f"./run.sh {pid} thorough",
            "evidence_file": f"/verif/evidence/{pid}.json",
            "replay_cmd_template": "./run.sh replay {path}",
            "engine": engine,
            "level_claimed": {"category": "model_checking", "text": text, "design_ref": "DESIGN.md §" + ref},
            "level_note": BASE,
            "technique": technique,
        })
    m = {
        "version": 1,
        "setup_cmd": "./setup.sh",
        "hooks": {
            "guard": "verif",
            "enable": "no file of /repo is changed: deploymc adds /verif/hooks/deploy_export_verif.go (//go:build verif) to package deploy virtually with `go test -tags verif -overlay <generated overlay.json>`; chainmc compiles the contracts from the working tree and drives them through the public ABI",
            "baseline_off_cmd": "cd /repo && GOFLAGS=-mod=mod go test -vet=off -count=1 -timeout 25m ./...",
            "source_commits": [],
            "add_only": True,
        },
        "engines": [
            {"name": "deploymc", "path": "/verif/deploymc", "serves_properties": ["C13"],
             "kind_free_text": "hand-written stateless explorer of environment schedules (which member runs when, transaction order, crash points) around the unmodified public deploy.Deploy, virtual time via testing/synctest (go1.26.8)"},
            {"name": "chainmc", "path": "/verif/mc", "serves_properties": [p for p in props if p in CHECKS and CHECKS[p][0] == "chainmc"],
             "kind_free_text": "hand-written explicit-state model checker: level-synchronous BFS / exhaustive grids over the real contract bytecode on an in-memory neo-go chain, reference models in Go, conformance replay on real signed blocks"},
        ],
        "checks": checks,
        "not_applicable": [{"property_id": p, "reason": NOT_YET} for p in props if p not in CHECKS],
        "notes": "exit 0 held / 1 VIOLATION / 2 harness error; known findings and fixed defects are listed in /verif/known_findings.json (read by the checks, never written at run time) and, one line per entry, in /verif/known_findings.txt",
    }
    json.dump(m, open("/verif/MANIFEST.json", "w"), indent=1)
    print("checks:", len(checks), "not_applicable:", len(m["not_applicable"]))

main()
