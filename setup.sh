#!/bin/bash
# Builds the framework from files on disk only and warms the Go build cache.
set -eu
HERE=$(cd "$(dirname "$0")" && pwd)
export GOFLAGS=-mod=mod GOPROXY=off GOSUMDB=off GOTOOLCHAIN=local
mkdir -p "$HERE/bin" "$HERE/evidence" "$HERE/replays"
(cd "$HERE/mc" && go build -o "$HERE/bin/mc" ./cmd/mc && go build -o "$HERE/bin/regen" ./cmd/regen)
if [ -x "$HERE/deploymc/setup.sh" ]; then "$HERE/deploymc/setup.sh"; fi
echo setup ok
