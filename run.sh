#!/bin/bash
# /verif/run.sh <Cxx> quick|thorough      run one property check against ${VERIF_REPO:-/repo}
# /verif/run.sh replay <path>             re-execute a recorded violation without the explorer
# Exit: 0 held (KNOWN-FINDING lines possible), 1 VIOLATION, 2 harness error (never a verdict).
set -u
HERE=$(cd "$(dirname "$0")" && pwd)
export GOFLAGS=-mod=mod GOPROXY=off GOSUMDB=off GOTOOLCHAIN=local CARGO_NET_OFFLINE=true PIP_NO_INDEX=1
export VERIF_DIR=$HERE
export VERIF_REPO=${VERIF_REPO:-/repo}
export VERIF_TIER=${VERIF_TIER:-}
mkdir -p "$HERE/bin" "$HERE/evidence" "$HERE/replays" "$HERE/.build"

build_mc() {
	# the module file is regenerated so that `replace` points at the tree under test; module file and
	# binary are private to this invocation, so checks may run side by side (also against different trees)
	W="$HERE/.build/run.$$"
	mkdir -p "$W"
	trap 'rm -rf "$W"' EXIT
	sed "s|=> /repo\$|=> $VERIF_REPO|" "$HERE/mc/go.mod" > "$W/build.mod"
	cp "$HERE/mc/go.sum" "$W/build.sum"
	(cd "$HERE/mc" && go build -modfile="$W/build.mod" -o "$W/mc" ./cmd/mc) || { echo "HARNESS ERROR: build of mc failed" >&2; exit 2; }
	MC="$W/mc"
}

case "${1:-}" in
replay)
	rf=${2:?usage: run.sh replay <path>}
	prop=$(python3 -c "import json,sys; print(json.load(open(sys.argv[1]))['property'])" "$rf") || exit 2
	if [ "$prop" = C13 ]; then exec "$HERE/deploymc/run.sh" replay "$rf"; fi
	build_mc
	"$MC" replay "$rf"
	exit $?
	;;
C13)
	exec "$HERE/deploymc/run.sh" "$@"
	;;
C[0-9][0-9])
	tier=${2:-${VERIF_TIER:-quick}}
	build_mc
	"$MC" "$1" "$tier"
	exit $?
	;;
*)
	echo "usage: run.sh <Cxx> quick|thorough | run.sh replay <path>" >&2
	exit 2
	;;
esac
