//go:build verif

package deploy

// Add-only test hook, compiled into package deploy only with -tags verif through
// `go build -overlay` (no file of the repository is touched): it exports three pure
// helpers of the deployment procedure so that /verif/deploymc can enumerate their inputs.

import (
	"github.com/nspcc-dev/neo-go/pkg/rpcclient/actor"
	"github.com/nspcc-dev/neo-go/pkg/util"
)

func VerifDivideFundsEvenly(fullAmount uint64, n int, f func(ind int, amount uint64)) {
	divideFundsEvenly(fullAmount, n, f)
}

func VerifRuntimeTransactionModifier(getBlockchainHeight func() uint32) actor.TransactionCheckerModifier {
	return neoFSRuntimeTransactionModifier(getBlockchainHeight)
}

type VerifSharedTxData struct {
	Sender          util.Uint160
	ValidUntilBlock uint32
	Nonce           uint32
}

func (x VerifSharedTxData) in() sharedTransactionData {
	return sharedTransactionData{sender: x.Sender, validUntilBlock: x.ValidUntilBlock, nonce: x.Nonce}
}

func (x VerifSharedTxData) Encode() string { return x.in().encodeToString() }

func VerifDecodeSharedTxData(s string) (VerifSharedTxData, error) {
	var d sharedTransactionData
	err := d.decodeString(s)
	return VerifSharedTxData{Sender: d.sender, ValidUntilBlock: d.validUntilBlock, Nonce: d.nonce}, err
}

func (x VerifSharedTxData) UnshiftChecksum(data []byte) []byte { return x.in().unshiftChecksum(data) }

func (x VerifSharedTxData) ShiftChecksum(data []byte) (bool, []byte) {
	return x.in().shiftChecksum(data)
}
