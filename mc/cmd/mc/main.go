// Command mc runs one property check of the chainmc engine.
//
//	mc <Cxx> quick|thorough
//	mc replay <file>
//
// Exit codes: 0 the property held on everything explored (KNOWN-FINDING lines possible),
// 1 VIOLATION, 2 harness error (never a verdict).
package main

import (
	"fmt"
	"os"
	"strconv"

	"verifmc/engine"
)

func main() {
	os.Exit(run())
}

func run() (code int) {
	defer func() {
		if r := recover(); r != nil {
			fmt.Fprintf(os.Stderr, "HARNESS ERROR: %v\n", r)
			switch r.(type) {
			case engine.HarnessError, engine.SetupRefused:
			default:
				panic(r)
			}
			code = 2
		}
	}()
	if len(os.Args) < 3 {
		fmt.Fprintln(os.Stderr, "usage: mc <Cxx> quick|thorough | mc replay <file>")
		return 2
	}
	seed, _ := strconv.ParseInt(os.Getenv("VERIF_SEED"), 10, 64)
	if os.Args[1] == "replay" {
		rf := engine.LoadReplay(os.Args[2])
		os.Setenv("VERIF_REPLAY_PATH", os.Args[2])
		c := engine.Registry[rf.Property]
		if c == nil || c.Replay == nil {
			fmt.Fprintf(os.Stderr, "no replayer for %s\n", rf.Property)
			return 2
		}
		return c.Replay(rf)
	}
	c := engine.Registry[os.Args[1]]
	if c == nil {
		fmt.Fprintf(os.Stderr, "unknown property %s\n", os.Args[1])
		return 2
	}
	tier := os.Args[2]
	if tier != "quick" && tier != "thorough" {
		fmt.Fprintln(os.Stderr, "tier must be quick or thorough")
		return 2
	}
	return c.Run(tier, seed)
}
