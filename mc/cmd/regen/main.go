package main

import (
	"bytes"
	"fmt"
	"os"
	"path/filepath"

	"encoding/json"
	"github.com/nspcc-dev/neo-go/cli/smartcontract"
	"github.com/nspcc-dev/neo-go/pkg/compiler"
	"github.com/nspcc-dev/neo-go/pkg/config"
	"github.com/nspcc-dev/neo-go/pkg/smartcontract/binding"
	"github.com/nspcc-dev/neo-go/pkg/smartcontract/manifest"
	"github.com/nspcc-dev/neo-go/pkg/smartcontract/rpcbinding"
	"gopkg.in/yaml.v3"
)

func main() {
	repo := os.Args[1]
	out := os.Args[2]
	config.Version = "0.107.0"
	for _, name := range []string{"alphabet", "audit", "balance", "container", "neofs", "neofsid", "netmap", "nns", "processing", "proxy", "reputation"} {
		src := filepath.Join(repo, "contracts", name)
		od := filepath.Join(out, name)
		os.MkdirAll(od, 0o755)
		conf, err := smartcontract.ParseContractConfig(filepath.Join(src, "config.yml"))
		if err != nil {
			panic(err)
		}
		o := &compiler.Options{
			Outfile:      filepath.Join(od, "contract.nef"),
			ManifestFile: filepath.Join(od, "manifest.json"),
			BindingsFile: filepath.Join(od, "bindings_config.yml"),
		}
		o.Name = conf.Name
		o.SourceURL = conf.SourceURL
		o.ContractEvents = conf.Events
		o.DeclaredNamedTypes = conf.NamedTypes
		o.ContractSupportedStandards = conf.SupportedStandards
		o.Permissions = make([]manifest.Permission, len(conf.Permissions))
		for i := range conf.Permissions {
			o.Permissions[i] = manifest.Permission(conf.Permissions[i])
		}
		o.SafeMethods = conf.SafeMethods
		o.Overloads = conf.Overloads
		if _, err := compiler.CompileAndSave(src, o); err != nil {
			panic(fmt.Errorf("%s: %w", name, err))
		}
		cmp := func(a, b string) bool {
			x, e1 := os.ReadFile(a)
			y, e2 := os.ReadFile(b)
			return e1 == nil && e2 == nil && bytes.Equal(x, y)
		}
		nefEq := cmp(filepath.Join(od, "contract.nef"), filepath.Join(src, "contract.nef"))
		manEq := cmp(o.ManifestFile, filepath.Join(src, "manifest.json"))
		// rpc binding
		cfg := binding.NewConfig()
		bs, _ := os.ReadFile(o.BindingsFile)
		dec := yaml.NewDecoder(bytes.NewReader(bs))
		dec.KnownFields(true)
		if err := dec.Decode(&cfg); err != nil {
			panic(err)
		}
		mb, _ := os.ReadFile(o.ManifestFile)
		m := new(manifest.Manifest)
		if err := json.Unmarshal(mb, m); err != nil {
			panic(err)
		}
		cfg.Manifest = m
		f, _ := os.Create(filepath.Join(od, "rpcbinding.go"))
		cfg.Output = f
		if err := rpcbinding.Generate(cfg); err != nil {
			panic(err)
		}
		f.Close()
		bindEq := cmp(filepath.Join(od, "rpcbinding.go"), filepath.Join(repo, "rpc", name, "rpcbinding.go"))
		fmt.Printf("%-11s nef=%v manifest=%v rpcbinding=%v\n", name, nefEq, manEq, bindEq)
	}
}
