package engine

import (
	"crypto/sha256"
	"encoding/hex"
	"encoding/json"
	"fmt"
	"os"
	"path/filepath"
	"reflect"
	"sort"
	"time"
)

// VerifDir is where evidence, replays and the known-findings file live.
var VerifDir = func() string {
	if r := os.Getenv("VERIF_DIR"); r != "" {
		return r
	}
	return "/verif"
}()

// ---------- known findings (read-only at run time) ----------

type Finding struct {
	Fixed    bool           `json:"fixed,omitempty"`
	Property string         `json:"property"`
	ID       string         `json:"id"`
	Class    string         `json:"class"`
	Where    map[string]any `json:"where,omitempty"`
	What     string         `json:"what"`
	Commit   string         `json:"commit,omitempty"`
}

type Findings struct{ List []Finding }

func LoadFindings() *Findings {
	f := &Findings{}
	b, err := os.ReadFile(filepath.Join(VerifDir, "known_findings.json"))
	if err != nil {
		return f
	}
	if err := json.Unmarshal(b, &f.List); err != nil {
		hpanic("known_findings.json: %v", err)
	}
	return f
}

// LoadFindingsAs loads the findings of property `from` relabelled as property `as` (a driver
// reused under another property keeps tolerating exactly its own listed findings).
func LoadFindingsAs(from, as string) *Findings {
	f := LoadFindings()
	out := &Findings{}
	for _, k := range f.List {
		if k.Property == from {
			k.Property = as
			out.List = append(out.List, k)
		}
	}
	return out
}

// Match returns the non-fixed finding that lists exactly this failure: same property, same
// class and every key of its `where` present with an equal value in the violation.
func (f *Findings) Match(prop string, v *Violation) *Finding {
	if f == nil {
		return nil
	}
	for i := range f.List {
		k := &f.List[i]
		if k.Fixed || k.Property != prop || k.Class != v.Class {
			continue
		}
		ok := true
		for key, want := range k.Where {
			got, present := v.Where[key]
			if !present || fmt.Sprint(got) != fmt.Sprint(want) {
				ok = false
				break
			}
		}
		if ok {
			return k
		}
	}
	return nil
}

// ---------- replay artefacts ----------

type ReplayFile struct {
	Property string         `json:"property"`
	Driver   string         `json:"driver"`
	Params   map[string]any `json:"params,omitempty"`
	Class    string         `json:"class"`
	Where    map[string]any `json:"where"`
	Msg      string         `json:"msg"`
	Ops      []int          `json:"ops,omitempty"`
	Path     []string       `json:"path,omitempty"`
	Case     any            `json:"case,omitempty"` // for grid checks: the failing case itself
	Repo     string         `json:"repo"`
}

func WriteReplay(prop, driver string, params map[string]any, v *Violation, cas any) string {
	rf := ReplayFile{Property: prop, Driver: driver, Params: params, Class: v.Class, Where: v.Where, Msg: v.Msg, Ops: v.Ops, Path: v.Path, Case: cas, Repo: Repo}
	b, _ := json.MarshalIndent(rf, "", " ")
	sum := sha256.Sum256(b)
	dir := filepath.Join(VerifDir, "replays")
	os.MkdirAll(dir, 0o755)
	p := filepath.Join(dir, fmt.Sprintf("%s-%s.json", prop, hex.EncodeToString(sum[:6])))
	if err := os.WriteFile(p, b, 0o644); err != nil {
		hpanic("write replay: %v", err)
	}
	return p
}

// ---------- evidence ----------

type Evidence struct {
	PropertyID  string         `json:"property_id"`
	Tier        string         `json:"tier"`
	Seed        int64          `json:"seed"`
	Level       string         `json:"level"`
	Coverage    map[string]any `json:"coverage"`
	Assumptions []string       `json:"assumptions"`
	WallS       float64        `json:"wall_s"`
	Violations  int            `json:"violations"`
}

var BaseAssumptions = []string{
	"neo-go v0.107.0 (VM, ledger, native contracts, compiler) is trusted",
	"contracts are compiled at check time from the working tree with the pinned compiler library",
	"the layered executor omits fee burning, OnPersist/PostPersist and MPT; it is bound to real blocks by the conformance replays counted in traces_validated_against_impl",
}

func WriteEvidence(e *Evidence) {
	dir := filepath.Join(VerifDir, "evidence")
	if d := os.Getenv("VERIF_EVIDENCE_DIR"); d != "" {
		dir = d // tools/ set this when a run is made against a deliberately changed tree
	}
	os.MkdirAll(dir, 0o755)
	// samples is always a list, also for a run that stopped at a violation before any sample was chosen
	if cov := e.Coverage; cov != nil {
		if v, has := cov["samples"]; !has || v == nil || (reflect.ValueOf(v).Kind() == reflect.Slice && reflect.ValueOf(v).IsNil()) {
			cov["samples"] = []any{}
		}
	}
	b, _ := json.MarshalIndent(e, "", " ")
	if err := os.WriteFile(filepath.Join(dir, e.PropertyID+".json"), b, 0o644); err != nil {
		hpanic("write evidence: %v", err)
	}
}

// Finish turns exploration statistics into evidence, KNOWN-FINDING / VIOLATION lines and an
// exit code (0 held, 1 violation).
func Finish(mk func() Driver, driver string, st *Stats, o Options, extraCov map[string]any, extraAssume []string) int {
	// unknown violations must reproduce 5/5 on fresh worlds before they are believed
	for _, v := range st.Violations {
		for i := 0; i < 5; i++ {
			rv, _ := ReplayOps(mk, v.Ops)
			if rv == nil || rv.Class != v.Class {
				hpanic("violation %s does not reproduce on a fresh world (run %d): %v", v.Class, i, v.Path)
			}
		}
	}
	// vacuity guards
	if st.Transitions > 0 && len(st.Violations) == 0 {
		if len(st.Outcomes) < 2 {
			hpanic("VACUOUS: a single outcome %v over %d transitions", st.Outcomes, st.Transitions)
		}
		if st.Changed == 0 {
			hpanic("VACUOUS: no transition changed state")
		}
	}
	cov := map[string]any{
		"states":                        st.States,
		"transitions":                   st.Transitions,
		"traces_validated_against_impl": st.ConfValidated,
		"refusals_replayed_on_blocks":   st.ConfRefusals,
		"samples":                       st.Samples,
		"evaluations":                   st.Transitions,
		"distinct_nontrivial":           st.NewChanged,
		"rule":                          "level-synchronous BFS over operation sequences on the real contract bytecode; a case is one (state, operation) transition; distinct_nontrivial counts newly discovered canonical states whose discovering transition changed contract storage",
		"exhaustive":                    st.Exhaustive,
		"completed_depth":               st.CompletedDepth,
		"depth_bound":                   o.Depth,
		"deadline_hit":                  st.DeadlineHit,
		"frontier_sizes":                st.Frontier,
		"outcomes":                      st.Outcomes,
		"transitions_changing_state":    st.Changed,
		"per_operation_success":         st.PerOpOK,
		"operations_never_succeeding":   neverOK(st),
		"known_findings_seen":           st.Known,
		"pruned_branches":               st.Pruned,
		"workers":                       o.Workers,
		"repo":                          Repo,
	}
	for k, v := range extraCov {
		cov[k] = v
	}
	ev := &Evidence{PropertyID: o.Property, Tier: o.Tier, Seed: o.Seed, Level: "model_checking", Coverage: cov,
		Assumptions: append(append([]string{}, BaseAssumptions...), extraAssume...), WallS: st.Elapsed.Seconds(), Violations: len(st.Violations)}
	WriteEvidence(ev)
	fmt.Printf("%s %s: depth %d/%d states=%d transitions=%d changed=%d outcomes=%v conformance=%d exhaustive=%v deadline_hit=%v wall=%.1fs\n",
		o.Property, o.Tier, st.CompletedDepth, o.Depth, st.States, st.Transitions, st.Changed, st.Outcomes, st.ConfValidated, st.Exhaustive, st.DeadlineHit, st.Elapsed.Seconds())
	ids := make([]string, 0, len(st.Known))
	for id := range st.Known {
		ids = append(ids, id)
	}
	sort.Strings(ids)
	kf := LoadFindings()
	for _, id := range ids {
		for _, f := range kf.List {
			if f.ID == id && f.Property == o.Property {
				fmt.Printf("KNOWN-FINDING: property=%s %s [%s; %d hits; e.g. %v]\n", o.Property, f.What, id, st.Known[id], st.KnownExample[id].Path)
			}
		}
	}
	if len(st.Violations) == 0 {
		return 0
	}
	seen := map[string]bool{}
	for _, v := range st.Violations {
		key := v.Class + fmt.Sprint(v.Where)
		if seen[key] {
			continue
		}
		seen[key] = true
		p := WriteReplay(o.Property, driver, o.Params, v, nil)
		fmt.Printf("  %s\n", v.String())
		fmt.Printf("VIOLATION property=%s replay=%s\n", o.Property, p)
	}
	return 1
}

func neverOK(st *Stats) []string {
	var out []string
	for op := range st.PerOpTried {
		if st.PerOpOK[op] == 0 {
			out = append(out, op)
		}
	}
	sort.Strings(out)
	if len(out) > 40 {
		out = append(out[:40], fmt.Sprintf("... %d more", len(out)-40))
	}
	return out
}

// Now is a seam for wall-clock measurement only (never an oracle).
func Now() time.Time { return time.Now() }
