package engine

import (
	"crypto/sha256"
	"fmt"
	"math/big"

	"github.com/nspcc-dev/neo-go/pkg/core/native/nativenames"
	"github.com/nspcc-dev/neo-go/pkg/neotest"
	"github.com/nspcc-dev/neo-go/pkg/util"
)

// C05: container creation charges exactly the configured fee, atomically. Full grid over
// fee settings x Alphabet sizes x balance boundaries x named/unnamed x short histories.

type feeCase struct {
	Fee, Alias int64
	Named      string // "" | new | reuse | prereg
	Off        int64  // owner balance at the measured put = T*Mul + Off
	Mul        int64
	Hist       string // put | put-put | put-setfee-put
	Self       bool   // the owner is Alphabet node 0's own account
	Shape      string // "" | meta (the five-argument put with the meta flag) | notoken (no session token: the owner's key is bound in NeoFSID after the payments)
}

type FeeGrid struct {
	N     int
	Extra int // Inner Ring members that are not Alphabet nodes (0: the NeoFSAlphabet role is not designated at all)
	owner util.Uint160
	extra []*Account
}

func NewFeeGrid(n int) *FeeGrid { return &FeeGrid{N: n} }

// NewFeeGridIR is the grid on a chain whose Inner Ring (the NeoFSAlphabet role) is the n
// Alphabet keys plus extra other keys: only the former are paid.
func NewFeeGridIR(n, extra int) *FeeGrid { return &FeeGrid{N: n, Extra: extra} }

func (d *FeeGrid) Name() string {
	if d.Extra > 0 {
		return fmt.Sprintf("container-fee-n%d-ring%d", d.N, d.N+d.Extra)
	}
	return fmt.Sprintf("container-fee-n%d", d.N)
}
func (d *FeeGrid) Rule() string {
	return "product of ContainerFee {0,1,7} x ContainerAliasFee {0,3} x naming {none,new name,name reused after delete,domain registered in advance} x owner balance {T-1,T,T+1,2T-1,2T} x history {put; put,put; put,setConfig(fee'),put; put,setConfig(0),put; put, the same container put again} plus rows where the owner is an Alphabet node; non-trivial = T > 0; distinct by case"
}

func (d *FeeGrid) Build() *World {
	w := buildContainerWorld(d.N, 0, 0)
	d.owner = w.Acct("owner").Hash
	d.extra = nil
	if d.Extra > 0 {
		var ks []any
		for _, k := range w.Pubs {
			ks = append(ks, k.Bytes())
		}
		for i := 0; i < d.Extra; i++ {
			a := w.Acct(fmt.Sprintf("ring%d", i))
			d.extra = append(d.extra, a)
			ks = append(ks, a.Pub())
		}
		w.Invoke(w.E.NativeHash(w.T, nativenames.Designation), []neotest.Signer{w.CommS}, "designateAsRole", int64(16), ks)
	}
	w.Freeze()
	return w
}

func (d *FeeGrid) Cases(tier string) []GridCase {
	var out []GridCase
	add := func(c feeCase) {
		name := fmt.Sprintf("fee=%d alias=%d named=%q balance=%d*T%+d hist=%s self=%v", c.Fee, c.Alias, c.Named, c.Mul, c.Off, c.Hist, c.Self)
		if c.Shape != "" {
			name += " shape=" + c.Shape
		}
		out = append(out, GridCase{Name: name, Data: c})
	}
	for _, fee := range []int64{0, 1, 7} {
		for _, al := range []int64{0, 3} {
			for _, named := range []string{"", "new", "reuse", "prereg"} {
				for _, bo := range [][2]int64{{1, -1}, {1, 0}, {1, 1}, {2, -1}, {2, 0}} {
					for _, hist := range []string{"put", "put-put", "put-setfee-put", "put-setzero-put", "put-sameput"} {
						add(feeCase{Fee: fee, Alias: al, Named: named, Mul: bo[0], Off: bo[1], Hist: hist})
					}
				}
			}
			// the other entry shapes of the same registration
			for _, bo := range [][2]int64{{1, -1}, {1, 0}, {1, 1}} {
				add(feeCase{Fee: fee, Alias: al, Named: "", Mul: bo[0], Off: bo[1], Hist: "put", Shape: "meta"})
				for _, named := range []string{"", "new"} {
					add(feeCase{Fee: fee, Alias: al, Named: named, Mul: bo[0], Off: bo[1], Hist: "put", Shape: "notoken"})
				}
			}
			add(feeCase{Fee: fee, Alias: al, Named: "new", Mul: 1, Off: 0, Hist: "put", Self: true})
			add(feeCase{Fee: fee, Alias: al, Named: "", Mul: 1, Off: -1, Hist: "put", Self: true})
			add(feeCase{Fee: fee, Alias: al, Named: "", Mul: 1, Off: 0, Hist: "put", Self: true})
		}
	}
	return out
}

func mkContainerBlob(owner util.Uint160, nonce byte) ([]byte, []byte) {
	b := make([]byte, 80)
	b[0] = 0x0a
	copy(b[2+4:], OwnerID(owner))
	b[79] = nonce
	h := sha256.Sum256(b)
	return b, h[:]
}

func (d *FeeGrid) Eval(x *Exec, root *Node, gc GridCase) GridResult {
	w := x.W
	c := gc.Data.(feeCase)
	cnt, bal, nm := w.Contracts["container"].Hash, w.Contracts["balance"].Hash, w.Contracts["netmap"].Hash
	A := []util.Uint160{w.Alpha}
	owner := d.owner
	if c.Self {
		owner = w.Members[0].Hash
	}
	where := map[string]any{"n": d.N, "fee": c.Fee, "alias": c.Alias, "named": c.Named, "hist": c.Hist}
	var vs []*Violation
	cur := root
	do := func(label string, scr []byte) Obs {
		o, nn := x.Do(cur, Call{Script: scr, Signers: A, Label: label})
		cur = nn
		return o
	}
	must := func(label string, scr []byte) {
		if o := do(label, scr); !o.Halt {
			hpanic("C05 setup %s (%s): %s", label, gc.Name, o.Fault)
		}
	}
	// a preparatory put is itself governed by the property: the owner holds exactly its total fee
	mustPut := func(label string, scr []byte) bool {
		if o := do(label, scr); !o.Halt {
			vs = append(vs, Viol("fee-threshold", fmt.Sprintf("%s by an owner holding exactly the total fee is refused: %s", label, o.Fault), where))
			return false
		}
		return true
	}
	sig, key, tok := []byte("sig"), append([]byte{2}, make([]byte, 32)...), []byte("session-token")
	put := func(blob []byte, name string) []byte {
		if name == "" {
			return Script(cnt, "put", blob, sig, key, tok)
		}
		return Script(cnt, "putNamed", blob, sig, key, tok, name, "")
	}
	setFee := func(fee, alias int64) {
		must("setConfig fee", Script(nm, "setConfig", []byte("id"), []byte("ContainerFee"), fee))
		must("setConfig alias", Script(nm, "setConfig", []byte("id"), []byte("ContainerAliasFee"), alias))
	}
	balOf := func(n *Node, h util.Uint160) *big.Int {
		r := w.Read(n.L, n.H, n.TS, bal, "balanceOf", h)
		b, ok := AsInt(r.Ret0())
		if !ok {
			hpanic("balanceOf: %v %s", r.Stack, r.Fault)
		}
		return b
	}
	mintTo := func(target *big.Int) {
		have := balOf(cur, owner)
		if d := new(big.Int).Sub(target, have); d.Sign() > 0 {
			must("mint", Script(bal, "mint", owner, d, []byte("m")))
		} else if d.Sign() < 0 {
			must("burn", Script(bal, "burn", owner, new(big.Int).Neg(d), []byte("b")))
		}
	}
	perNode := func(fee, alias int64, named bool) int64 {
		if named {
			return fee + alias
		}
		return fee
	}
	N := int64(d.N)
	name := ""
	if c.Named != "" {
		name = "nice"
	}
	// ---- history before the measured put ----
	setFee(c.Fee, c.Alias)
	nonce := byte(1)
	switch c.Named {
	case "reuse":
		// a first container takes the name and is deleted again: the domain stays, without records
		b0, cid0 := mkContainerBlob(owner, 100)
		mintTo(big.NewInt(perNode(c.Fee, c.Alias, true) * N))
		if !mustPut("putNamed (first holder of the name)", put(b0, name)) {
			return GridResult{Outcome: "refused", Nontrivial: true, V: vs}
		}
		must("delete (first holder)", Script(cnt, "delete", cid0, sig, tok))
	case "prereg":
		o, nn := x.Do(cur, Call{Script: Script(w.Contracts["nns"].Hash, "register", name+".container", w.Comm, "a@b.c", int64(3600), int64(600), int64(3600*24*365), int64(3600)),
			Signers: []util.Uint160{w.Comm}, Label: "register the domain in advance"})
		if !o.Halt {
			hpanic("C05 setup register: %s", o.Fault)
		}
		cur = nn
	}
	fee, alias := c.Fee, c.Alias
	switch c.Hist {
	case "put-put":
		b1, _ := mkContainerBlob(owner, nonce)
		nonce++
		mintTo(big.NewInt(c.Fee * N))
		if !mustPut("first put", put(b1, "")) {
			return GridResult{Outcome: "refused", Nontrivial: true, V: vs}
		}
	case "put-sameput":
		// the measured put repeats the very container that is already stored: it is a registration like any other
		b1, _ := mkContainerBlob(owner, nonce)
		mintTo(big.NewInt(c.Fee * N))
		if !mustPut("first put", put(b1, "")) {
			return GridResult{Outcome: "refused", Nontrivial: true, V: vs}
		}
	case "put-setfee-put":
		b1, _ := mkContainerBlob(owner, nonce)
		nonce++
		mintTo(big.NewInt(c.Fee * N))
		if !mustPut("first put", put(b1, "")) {
			return GridResult{Outcome: "refused", Nontrivial: true, V: vs}
		}
		fee, alias = c.Fee+2, c.Alias+1
		setFee(fee, alias)
	case "put-setzero-put":
		b1, _ := mkContainerBlob(owner, nonce)
		nonce++
		mintTo(big.NewInt(c.Fee * N))
		if !mustPut("first put", put(b1, "")) {
			return GridResult{Outcome: "refused", Nontrivial: true, V: vs}
		}
		fee, alias = 0, 0 // the Alphabet makes containers free
		setFee(fee, alias)
	}
	// ---- the measured put ----
	pn := perNode(fee, alias, name != "")
	T := pn * N
	target := T*c.Mul + c.Off
	if target < 0 {
		return GridResult{Outcome: "skipped-negative-balance"}
	}
	mintTo(big.NewInt(target))
	blob, cid := mkContainerBlob(owner, nonce)
	before := cur
	ownerBefore := balOf(before, owner)
	var nodeBefore []*big.Int
	for _, m := range w.Members {
		nodeBefore = append(nodeBefore, balOf(before, m.Hash))
	}
	signers := A
	if c.Named == "prereg" && w.Comm != w.Alpha {
		signers = []util.Uint160{w.Alpha, w.Comm} // records of a committee-owned domain need the committee's witness
	}
	measured := put(blob, name)
	switch c.Shape {
	case "meta":
		measured = Script(cnt, "put", blob, sig, key, tok, true)
	case "notoken":
		if name == "" {
			measured = Script(cnt, "put", blob, sig, key, []byte{})
		} else {
			measured = Script(cnt, "putNamed", blob, sig, key, []byte{}, name, "")
		}
	}
	obs, after := x.Do(cur, Call{Script: measured, Signers: signers, Label: "measured put"})
	cur = after
	stored := w.Read(after.L, after.H, after.TS, cnt, "get", cid).Halt
	storedBefore := w.Read(before.L, before.H, before.TS, cnt, "get", cid).Halt
	wantOK := target >= T
	outcome := "charged"
	if !wantOK {
		outcome = "refused"
	}
	if obs.Halt != wantOK {
		where["balance_vs_T"] = target - T
		vs = append(vs, Viol("fee-threshold", fmt.Sprintf("put with balance %d and total fee %d (%d per node x %d): halt=%v fault=%q", target, T, pn, N, obs.Halt, obs.Fault), where))
		return GridResult{Outcome: outcome, Nontrivial: T > 0, V: vs}
	}
	if !obs.Halt {
		if df := DiffDumps(w.FullDump(before.L), w.FullDump(after.L)); len(df) > 0 || stored != storedBefore {
			vs = append(vs, Viol("refused-but-changed", fmt.Sprintf("a refused put changed state: %v", df), where))
		}
		return GridResult{Outcome: outcome, Nontrivial: T > 0, V: vs}
	}
	if !stored {
		vs = append(vs, Viol("paid-but-not-stored", "the put halted but get(cid) does not answer", where))
	}
	// exact deltas
	wantOwner := new(big.Int).Sub(ownerBefore, big.NewInt(T))
	for i, m := range w.Members {
		want := new(big.Int).Add(nodeBefore[i], big.NewInt(pn))
		if m.Hash == owner {
			want = new(big.Int).Add(wantOwner, big.NewInt(pn)) // pays itself one share
			wantOwner = want
		}
		if got := balOf(after, m.Hash); got.Cmp(want) != 0 {
			where["node"] = i
			vs = append(vs, Viol("node-credit", fmt.Sprintf("Alphabet node %d has %s, expected %s (+%d)", i, got, want, pn), where))
			break
		}
	}
	for _, a := range d.extra {
		if got := balOf(after, a.Hash); got.Sign() != 0 {
			vs = append(vs, Viol("node-credit", fmt.Sprintf("Inner Ring member %s, which is not an Alphabet node, was credited %s", a.Name, got), where))
			break
		}
	}
	if got := balOf(after, owner); got.Cmp(wantOwner) != 0 {
		vs = append(vs, Viol("owner-debit", fmt.Sprintf("owner has %s, expected %s (charged %d = %d x %d)", got, wantOwner, T, pn, N), where))
	}
	// the payments are Balance transfers of the per-node fee out of the owner's account (announced as C01 demands);
	// how a zero fee is handled, and the details bytes, are not part of this statement
	cntX := 0
	for _, nf := range obs.Notifs {
		if nf.Contract == "balance" && nf.Name == "TransferX" {
			cntX++
			if len(nf.Args) != 4 || !Same(nf.Args[0], NX(owner.BytesBE())) || !Same(nf.Args[2], NI(pn)) {
				vs = append(vs, Viol("fee-notification", fmt.Sprintf("TransferX %v; expected from the owner, amount %d", nf.Args, pn), where))
				break
			}
		}
	}
	if pn > 0 && cntX != d.N {
		vs = append(vs, Viol("fee-notification", fmt.Sprintf("%d TransferX notifications for %d Alphabet nodes", cntX, d.N), where))
	}
	// nothing is minted or burnt by a put, and nobody else is paid: the supply stays and the deltas above add up to zero
	if sb, sa := w.Read(before.L, before.H, before.TS, bal, "totalSupply"), w.Read(after.L, after.H, after.TS, bal, "totalSupply"); !Same(sb.Ret0(), sa.Ret0()) {
		vs = append(vs, Viol("supply-moved", fmt.Sprintf("totalSupply %v -> %v over a put", sb.Stack, sa.Stack), where))
	}
	return GridResult{Outcome: outcome, Nontrivial: T > 0, V: vs}
}
