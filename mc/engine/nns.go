package engine

import (
	"fmt"
	"sort"
	"strings"

	"github.com/nspcc-dev/neo-go/pkg/compiler"
	"github.com/nspcc-dev/neo-go/pkg/core/dao"
	"github.com/nspcc-dev/neo-go/pkg/crypto/hash"
	"github.com/nspcc-dev/neo-go/pkg/neotest"
	"github.com/nspcc-dev/neo-go/pkg/util"
	"github.com/nspcc-dev/neo-go/pkg/vm/stackitem"
)

// C10 (ownership lifecycle), C11 (authorisation) and C12 (records, resolution) share one
// NNS world and one reference model; they differ in alphabet and in which clauses matter.

const (
	yearMs   = uint64(365*24*3600) * 1000
	regLifeS = int64(1000) // lifetime of names registered by the drivers, seconds

	rtA     = 1
	rtCNAME = 5
	rtSOA   = 6
	rtTXT   = 16
	rtAAAA  = 28
)

type nameRec struct {
	owner string // hex(20) or "" for committee
	admin string
	exp   uint64
}

type recEntry struct {
	id   int
	data string
}

type nnsModel struct {
	names  map[string]nameRec // incl. TLDs
	roots  map[string]bool
	supply int
	bal    map[string]int
	recs   map[string][]recEntry // token|name|type -> entries ordered by id
	soa    map[string]uint64     // token -> serial (time of the last mutation / registration)
	mail   map[string]string     // token -> SOA email
	now    uint64
	steps  int
}

func (m *nnsModel) Clone() Model {
	c := &nnsModel{names: map[string]nameRec{}, roots: map[string]bool{}, supply: m.supply, bal: map[string]int{}, recs: map[string][]recEntry{},
		soa: map[string]uint64{}, mail: map[string]string{}, now: m.now, steps: m.steps}
	for k, v := range m.names {
		c.names[k] = v
	}
	for k, v := range m.roots {
		c.roots[k] = v
	}
	for k, v := range m.bal {
		c.bal[k] = v
	}
	for k, v := range m.recs {
		c.recs[k] = append([]recEntry{}, v...)
	}
	for k, v := range m.soa {
		c.soa[k] = v
	}
	for k, v := range m.mail {
		c.mail[k] = v
	}
	return c
}
func (m *nnsModel) Key() []byte { return []byte{byte(m.steps)} }

func (m *nnsModel) alive(n string) bool { r, ok := m.names[n]; return ok && m.now < r.exp }

func frags(n string) []string { return strings.Split(n, ".") }

// parentsAlive: every proper suffix of n (its parents up to the TLD) is registered and unexpired.
func (m *nnsModel) parentsAlive(n string) bool {
	fr := frags(n)
	for i := 1; i < len(fr); i++ {
		if !m.alive(strings.Join(fr[i:], ".")) {
			return false
		}
	}
	return true
}

// token is the longest registered (unexpired) enclosing name of n below the TLD, or n itself.
func (m *nnsModel) token(n string) string {
	fr := frags(n)
	for i := 0; i < len(fr)-1; i++ {
		c := strings.Join(fr[i:], ".")
		if m.alive(c) {
			return c
		}
	}
	return n
}

func rkey(token, name string, typ int) string { return fmt.Sprintf("%s|%s|%d", token, name, typ) }

type nnsOp struct {
	kind   string // regTLD register transfer renew setAdmin time add set del updSOA setPrice tick
	name   string
	who    string // owner param / to / admin: U1 U2 P D nil
	years  int64
	bad    bool  // add/set: the data is not well-formed for its type, the call must be refused
	life   int64 // regTLD: lifetime in seconds (ten years unless set)
	typ    int
	id     int
	data   string
	signer []string // symbolic: U1 U2 D S Cm
	step   string   // for time: exp-1 exp exp+1 year
}

type NNSDriver struct {
	N     int    // committee size (3 unless set)
	Mode  string // C10 C11 C12r C12c
	ops   []nnsOp
	acc   map[string]util.Uint160
	names []string // names whose read API is compared after every step
	pre   []string // names registered for U1 during Build
	// preLife: lifetime in seconds of a pre-registered name (regLifeS unless listed)
	preLife map[string]int64
}

const nnsProbeSrc = `package probe

import "github.com/nspcc-dev/neo-go/pkg/interop"

func OnNEP11Payment(from interop.Hash160, amount int, token []byte, data any) {}
`

// nnsFwdSrc: a receiver that hands every name it is given on to the account fixed at its deployment, from inside the
// payment callback (a re-entrant transfer while the outer one is still running).
const nnsFwdSrc = `package fwd

import (
	"github.com/nspcc-dev/neo-go/pkg/interop"
	"github.com/nspcc-dev/neo-go/pkg/interop/contract"
	"github.com/nspcc-dev/neo-go/pkg/interop/runtime"
	"github.com/nspcc-dev/neo-go/pkg/interop/storage"
)

func _deploy(data any, isUpdate bool) {
	if !isUpdate {
		storage.Put(storage.GetContext(), "to", data.([]any)[0])
	}
}

func OnNEP11Payment(from interop.Hash160, amount int, token []byte, data any) {
	to := storage.Get(storage.GetContext(), "to").(interop.Hash160)
	contract.Call(runtime.GetCallingScriptHash(), "transfer", contract.All, to, token, nil)
}
`

// nnsRefuseSrc: a receiver whose payment callback always fails.
const nnsRefuseSrc = `package refuse

import "github.com/nspcc-dev/neo-go/pkg/interop"

func OnNEP11Payment(from interop.Hash160, amount int, token []byte, data any) {
	panic("not accepted")
}
`

func NewNNSDriver(mode string) *NNSDriver {
	d := &NNSDriver{Mode: mode}
	add := func(o ...nnsOp) { d.ops = append(d.ops, o...) }
	s := func(x ...string) []string { return x }
	switch mode {
	case "C10":
		d.names = []string{"aa.com", "bb.com", "x.aa.com", "y.x.aa.com", "aa.org"}
		// the second TLD lives 2000 s only: the clock steps take it past its end while names under it are still alive
		// (parent chain broken at the TLD link, re-registration of an expired TLD)
		add(nnsOp{kind: "regTLD", name: "org", signer: s("Cm"), life: 2000}, nnsOp{kind: "regTLD", name: "org", signer: s("U1"), life: 2000})
		for _, n := range d.names {
			add(nnsOp{kind: "register", name: n, who: "U1", signer: s("U1")}, nnsOp{kind: "register", name: n, who: "U2", signer: s("U2")})
		}
		add(
			nnsOp{kind: "register", name: "x.aa.com", who: "U2", signer: s("U2", "U1")}, // sub-name for U2 authorised by the parent's owner
			nnsOp{kind: "register", name: "x.aa.com", who: "U2", signer: s("U2", "D")},  // ... by the parent's admin
			nnsOp{kind: "register", name: "aa.com", who: "U1", signer: s("S")},          // owner does not witness
			nnsOp{kind: "register", name: "aa.com", who: "P", signer: s("U1")},          // contract owner without witness
		)
		for _, n := range []string{"aa.com", "x.aa.com"} {
			add(
				nnsOp{kind: "transfer", name: n, who: "U2", signer: s("U1")},
				nnsOp{kind: "transfer", name: n, who: "U1", signer: s("U2")},
				nnsOp{kind: "transfer", name: n, who: "U1", signer: s("U1")}, // possibly to self
				nnsOp{kind: "transfer", name: n, who: "P", signer: s("U1")},
				nnsOp{kind: "transfer", name: n, who: "F", signer: s("U1")}, // a contract that passes the name on to U2 from inside the callback
				nnsOp{kind: "transfer", name: n, who: "F", signer: s("U2")},
				nnsOp{kind: "transfer", name: n, who: "U2", signer: s("D")}, // an admin cannot transfer
				nnsOp{kind: "renew", name: n, years: 1, signer: s("U1")},
				nnsOp{kind: "renew", name: n, years: 10, signer: s("U1")},
				nnsOp{kind: "renew", name: n, years: 1, signer: s("D")},
				nnsOp{kind: "renew", name: n, years: 1, signer: s("S")},
				nnsOp{kind: "setAdmin", name: n, who: "D", signer: s("U1", "D")},
				nnsOp{kind: "setAdmin", name: n, who: "D", signer: s("U1")},
				nnsOp{kind: "setAdmin", name: n, who: "D", signer: s("D")},
				nnsOp{kind: "setAdmin", name: n, who: "nil", signer: s("U1")},
			)
		}
		add(
			// a receiver that refuses the payment: the whole transfer fails and nothing changes hands
			nnsOp{kind: "transfer", name: "aa.com", who: "R", signer: s("U1")},
			// a name under the short-lived TLD: its own term outlives the TLD's
			nnsOp{kind: "transfer", name: "aa.org", who: "U2", signer: s("U1")},
			nnsOp{kind: "renew", name: "aa.org", years: 1, signer: s("U1")},
		)
		// the ten-year cap from below and above: a name with nine years left (one more year fits, two do not)
		// and one with nine years and an hour (not even one fits until an hour has passed)
		d.pre = []string{"lng.com", "lnh.com"}
		d.preLife = map[string]int64{"lng.com": 9 * 365 * 24 * 3600, "lnh.com": 9*365*24*3600 + 3600}
		d.names = append(d.names, "lng.com", "lnh.com")
		for _, n := range d.pre {
			add(nnsOp{kind: "renew", name: n, years: 1, signer: s("U1")}, nnsOp{kind: "renew", name: n, years: 2, signer: s("U1")})
		}
		add(nnsOp{kind: "renew", name: "aa.com", years: 2, signer: s("U1")}, nnsOp{kind: "renew", name: "aa.com", years: 9, signer: s("U1")},
			nnsOp{kind: "renew1", name: "aa.com", signer: s("U1")}, nnsOp{kind: "renew1", name: "aa.com", signer: s("S")})
		add(nnsOp{kind: "renew", name: "aa.com", years: 0, signer: s("U1")}, nnsOp{kind: "renew", name: "aa.com", years: 11, signer: s("U1")},
			nnsOp{kind: "renew", name: "com", years: 1, signer: s("Cm")}, nnsOp{kind: "renew", name: "com", years: 1, signer: s("U1")})
		for _, st := range []string{"exp-1", "exp", "exp+1", "year"} {
			add(nnsOp{kind: "time", step: st})
		}
	case "C11":
		d.pre = []string{"aa.com", "x.aa.com"} // both start as U1's, which saves two levels of depth
		d.names = []string{"aa.com", "x.aa.com", "z.aa.com", "z.x.aa.com", "bb.com"}
		add(
			// a fresh second-level name "on behalf of an owner who witnesses": an account that does not sign,
			// a deployed contract (which cannot sign and is not the caller), and the honest case
			nnsOp{kind: "register", name: "bb.com", who: "U2", signer: s("S")},
			nnsOp{kind: "register", name: "bb.com", who: "P", signer: s("S")},
			nnsOp{kind: "register", name: "bb.com", who: "U2", signer: s("S", "U2")},
			nnsOp{kind: "register", name: "aa.com", who: "U1", signer: s("U1")},
			nnsOp{kind: "register", name: "x.aa.com", who: "U1", signer: s("U1")},
			nnsOp{kind: "transfer", name: "aa.com", who: "U2", signer: s("U1")},
			nnsOp{kind: "transfer", name: "x.aa.com", who: "U2", signer: s("U1")},
			nnsOp{kind: "setAdmin", name: "aa.com", who: "D", signer: s("U1", "D")},
			nnsOp{kind: "setAdmin", name: "x.aa.com", who: "D", signer: s("U1", "D")},
			// an owner who appoints itself administrator: the role must not outlive the ownership either
			nnsOp{kind: "setAdmin", name: "aa.com", who: "U1", signer: s("U1")},
			nnsOp{kind: "setAdmin", name: "x.aa.com", who: "U1", signer: s("U1")},
			nnsOp{kind: "time", step: "exp"},
			// x.aa.com was registered a block (1 ms) after aa.com: one more millisecond and both have expired, which
			// opens the take-over of the sub-name by somebody else
			nnsOp{kind: "time", step: "exp+1"},
		)
		sets := [][]string{s("U1"), s("U2"), s("D"), s("S"), s("Cm"), s("U2", "D"), s("Al")}
		// records of sub-names that are not registered themselves: the authority is that of the longest registered
		// enclosing name, which changes hands with it
		d.names = append(d.names, "w.x.aa.com", "w.aa.com")
		for _, sg := range sets {
			add(nnsOp{kind: "add", name: "w.x.aa.com", typ: rtTXT, data: "t1", signer: sg},
				nnsOp{kind: "add", name: "w.aa.com", typ: rtTXT, data: "t1", signer: sg},
				nnsOp{kind: "del", name: "w.x.aa.com", typ: rtTXT, signer: sg})
		}
		add(
			// take-over after expiry by somebody else; a sub-name for U2 with only the parent's owner signing
			nnsOp{kind: "register", name: "aa.com", who: "U2", signer: s("U2")},
			nnsOp{kind: "register", name: "x.aa.com", who: "U2", signer: s("U2", "U1")},
			nnsOp{kind: "register", name: "z.aa.com", who: "U2", signer: s("U1")},
			// the parent's admin alone, for an owner who does not sign: the parent's owner itself, or somebody else
			nnsOp{kind: "register", name: "z.aa.com", who: "U1", signer: s("D")},
			nnsOp{kind: "register", name: "z.x.aa.com", who: "U1", signer: s("D")},
			nnsOp{kind: "register", name: "z.aa.com", who: "U2", signer: s("D")},
		)
		for _, n := range []string{"aa.com", "x.aa.com"} {
			for _, sg := range sets {
				add(
					nnsOp{kind: "add", name: n, typ: rtTXT, data: "t1", signer: sg},
					nnsOp{kind: "set", name: n, typ: rtTXT, id: 0, data: "t2", signer: sg},
					nnsOp{kind: "del", name: n, typ: rtTXT, signer: sg},
					nnsOp{kind: "updSOA", name: n, data: "new@x.y", signer: sg},
					nnsOp{kind: "renew", name: n, years: 1, signer: sg},
					nnsOp{kind: "renew1", name: n, signer: sg}, // the one-argument form of the same method
					nnsOp{kind: "setAdmin", name: n, who: "nil", signer: sg},
					nnsOp{kind: "transfer", name: n, who: "U2", signer: sg},
					nnsOp{kind: "register", name: "z." + n, who: "S", signer: append(s("S"), sg...)},
				)
			}
			add(nnsOp{kind: "setAdmin", name: n, who: "D", signer: s("U2", "D")}, nnsOp{kind: "setAdmin", name: n, who: "D", signer: s("U2")},
				nnsOp{kind: "setAdmin", name: n, who: "D", signer: s("D")}, nnsOp{kind: "setAdmin", name: n, who: "S", signer: s("U1")})
		}
		for _, sg := range [][]string{s("Cm"), s("U1"), s("S"), s("Al")} {
			add(nnsOp{kind: "regTLD", name: "org", signer: sg}, nnsOp{kind: "setPrice", years: 7, signer: sg},
				nnsOp{kind: "renew", name: "com", years: 1, signer: sg}, nnsOp{kind: "updSOA", name: "com", data: "new@x.y", signer: sg},
				nnsOp{kind: "renew1", name: "com", signer: sg},
				nnsOp{kind: "add", name: "com", typ: rtTXT, data: "t1", signer: sg})
		}
	case "C11m":
		// three registered levels with three owners (aa.com: U1, x.aa.com: U2, y.x.aa.com: S); the middle one runs
		// out first, which must not hand the branch below it to the owner of the name above it
		d.pre = []string{"aa.com", "x.aa.com", "y.x.aa.com"} // Build renews the outer two and hands the inner two on
		d.names = []string{"aa.com", "x.aa.com", "y.x.aa.com", "w.y.x.aa.com", "z.y.x.aa.com"}
		add(nnsOp{kind: "add", name: "y.x.aa.com", typ: rtTXT, data: "t0", signer: s("S")},
			nnsOp{kind: "time", step: "exp"},
			nnsOp{kind: "register", name: "x.aa.com", who: "U1", signer: s("U1")}) // take-over of the expired middle name by the owner above
		for _, sg := range [][]string{s("U1"), s("U2"), s("S"), s("D"), s("Cm")} {
			add(nnsOp{kind: "add", name: "y.x.aa.com", typ: rtTXT, data: "t1", signer: sg},
				nnsOp{kind: "add", name: "w.y.x.aa.com", typ: rtTXT, data: "t1", signer: sg},
				nnsOp{kind: "set", name: "y.x.aa.com", typ: rtTXT, id: 0, data: "t2", signer: sg},
				nnsOp{kind: "del", name: "y.x.aa.com", typ: rtTXT, signer: sg},
				nnsOp{kind: "updSOA", name: "y.x.aa.com", data: "new@x.y", signer: sg},
				nnsOp{kind: "renew", name: "y.x.aa.com", years: 1, signer: sg},
				nnsOp{kind: "register", name: "z.y.x.aa.com", who: "D", signer: append(s("D"), sg...)},
				nnsOp{kind: "transfer", name: "y.x.aa.com", who: "U2", signer: sg},
				nnsOp{kind: "setAdmin", name: "y.x.aa.com", who: "nil", signer: sg})
		}
	case "C11even":
		// committee-only operations on a 4-key committee: the majority is 3, exactly half is not
		d.names = []string{"aa.com"}
		for _, sg := range [][]string{s("Cm"), s("Half"), s("U1"), s("Al")} {
			add(nnsOp{kind: "regTLD", name: "org", signer: sg}, nnsOp{kind: "setPrice", years: 7, signer: sg},
				nnsOp{kind: "renew", name: "com", years: 1, signer: sg}, nnsOp{kind: "updSOA", name: "com", data: "new@x.y", signer: sg})
		}
		add(nnsOp{kind: "register", name: "aa.com", who: "U1", signer: s("U1")})
	case "C12r":
		d.pre = []string{"aa.com", "bb.com"}
		d.names = []string{"aa.com", "bb.com", "x.aa.com", "y.x.aa.com", "yx.aa.com", "z.y.x.aa.com"}
		u := s("U1")
		add(
			nnsOp{kind: "add", name: "aa.com", typ: rtTXT, data: "t1", signer: u},
			nnsOp{kind: "add", name: "aa.com", typ: rtTXT, data: "t2", signer: u},
			nnsOp{kind: "add", name: "aa.com", typ: rtA, data: "1.1.1.1", signer: u},
			nnsOp{kind: "add", name: "aa.com", typ: rtA, data: "2.2.2.2", signer: u},
			nnsOp{kind: "add", name: "aa.com", typ: rtAAAA, data: "2a02:6b8::2", signer: u},
			nnsOp{kind: "set", name: "aa.com", typ: rtA, id: 0, data: "2.2.2.2", signer: u},
			nnsOp{kind: "set", name: "aa.com", typ: rtA, id: 1, data: "3.3.3.3", signer: u},
			nnsOp{kind: "set", name: "aa.com", typ: rtA, id: 2, data: "3.3.3.3", signer: u},
			nnsOp{kind: "set", name: "aa.com", typ: rtTXT, id: 0, data: "t3", signer: u},
			nnsOp{kind: "set", name: "aa.com", typ: rtSOA, id: 0, data: "junk", signer: u},
			nnsOp{kind: "del", name: "aa.com", typ: rtA, signer: u},
			nnsOp{kind: "del", name: "aa.com", typ: rtTXT, signer: u},
			nnsOp{kind: "del", name: "aa.com", typ: rtSOA, signer: u},
			// replacing the single CNAME value, and the AAAA one; removal of exactly that type
			nnsOp{kind: "set", name: "aa.com", typ: rtCNAME, id: 0, data: "cc.com", signer: u},
			nnsOp{kind: "set", name: "aa.com", typ: rtCNAME, id: 1, data: "cc.com", signer: u},
			nnsOp{kind: "set", name: "aa.com", typ: rtAAAA, id: 0, data: "2a02:6b8::3", signer: u},
			nnsOp{kind: "del", name: "aa.com", typ: rtCNAME, signer: u},
			nnsOp{kind: "del", name: "aa.com", typ: rtAAAA, signer: u},
			nnsOp{kind: "add", name: "aa.com", typ: rtCNAME, data: "bb.com", signer: u},
			nnsOp{kind: "add", name: "aa.com", typ: rtCNAME, data: "cc.com", signer: u},
			nnsOp{kind: "add", name: "x.aa.com", typ: rtTXT, data: "t1", signer: u},
			nnsOp{kind: "add", name: "x.aa.com", typ: rtTXT, data: "tx", signer: u},
			nnsOp{kind: "del", name: "x.aa.com", typ: rtTXT, signer: u},
			nnsOp{kind: "add", name: "y.x.aa.com", typ: rtTXT, data: "ty", signer: u},
			nnsOp{kind: "add", name: "z.y.x.aa.com", typ: rtTXT, data: "tz", signer: u},   // two labels below x.aa.com, three below its token
			nnsOp{kind: "add", name: "yx.aa.com", typ: rtTXT, data: "t", signer: u},       // shares a textual suffix with x.aa.com without a label boundary
			nnsOp{kind: "add", name: "x.aa.com", typ: rtCNAME, data: "bb.com", signer: u}, // the one-CNAME rule is per name, also for a sub-name kept under aa.com
			nnsOp{kind: "add", name: "x.aa.com", typ: rtCNAME, data: "cc.com", signer: u},
			nnsOp{kind: "register", name: "x.aa.com", who: "U1", signer: u},
			nnsOp{kind: "register", name: "y.x.aa.com", who: "U1", signer: u},
			nnsOp{kind: "add", name: "bb.com", typ: rtTXT, data: "n16", signer: u}, // bb.com starts with 15 TXT values
			nnsOp{kind: "add", name: "bb.com", typ: rtTXT, data: "n17", signer: u},
			nnsOp{kind: "del", name: "bb.com", typ: rtTXT, signer: u},              // empties a list that may be at capacity
			nnsOp{kind: "add", name: "bb.com", typ: rtTXT, data: "n03", signer: u}, // duplicate of an existing value
			nnsOp{kind: "add", name: "aa.com", typ: rtTXT, data: "n03", signer: u}, // a value its alias bb.com holds too: resolve lists both
			nnsOp{kind: "add", name: "zz.com", typ: rtTXT, data: "t1", signer: u},  // unregistered second-level name
			nnsOp{kind: "add", name: "aa.com", typ: rtTXT, data: "t1", signer: s("S")},
			nnsOp{kind: "add", name: "aa.com", typ: 2, data: "t1", signer: u}, // unsupported record type
			nnsOp{kind: "time", step: "exp"},
			nnsOp{kind: "register", name: "aa.com", who: "U2", signer: s("U2")}, // take-over after expiry
		)
	case "C12m":
		// a mid-level name that expires while its parent lives on: its records and those of its
		// sub-names fall back to the parent token
		d.pre = []string{"aa.com", "x.aa.com"} // aa.com is renewed by a year in Build
		d.names = []string{"aa.com", "x.aa.com", "y.x.aa.com"}
		u := s("U1")
		add(
			nnsOp{kind: "add", name: "x.aa.com", typ: rtTXT, data: "tx", signer: u},
			nnsOp{kind: "add", name: "x.aa.com", typ: rtTXT, data: "tx2", signer: u},
			nnsOp{kind: "add", name: "y.x.aa.com", typ: rtTXT, data: "ty", signer: u},
			nnsOp{kind: "add", name: "aa.com", typ: rtTXT, data: "ta", signer: u},
			nnsOp{kind: "set", name: "x.aa.com", typ: rtTXT, id: 0, data: "tz", signer: u},
			nnsOp{kind: "del", name: "x.aa.com", typ: rtTXT, signer: u},
			nnsOp{kind: "del", name: "y.x.aa.com", typ: rtTXT, signer: u},
			nnsOp{kind: "add", name: "x.aa.com", typ: rtCNAME, data: "aa.com", signer: u},
			nnsOp{kind: "time", step: "exp"},
			nnsOp{kind: "register", name: "x.aa.com", who: "U2", signer: s("U2", "U1")},
			nnsOp{kind: "register", name: "x.aa.com", who: "U1", signer: u},
			nnsOp{kind: "add", name: "x.aa.com", typ: rtTXT, data: "t2", signer: s("U2")},
		)
	case "C12c":
		// CNAME graphs over five registered names: chains of 0..4 links, a 2-cycle, a self-loop
		d.pre = []string{"n0.com", "n1.com", "n2.com", "n3.com", "n4.com"}
		d.names = d.pre
		u := s("U1")
		for k := 0; k < 4; k++ {
			add(nnsOp{kind: "add", name: d.pre[k], typ: rtCNAME, data: d.pre[k+1], signer: u})
		}
		add(nnsOp{kind: "add", name: "n1.com", typ: rtCNAME, data: "n0.com", signer: u},
			nnsOp{kind: "add", name: "n4.com", typ: rtCNAME, data: "n4.com", signer: u},
			nnsOp{kind: "add", name: "n2.com", typ: rtCNAME, data: "s.n4.com", signer: u},           // into a sub-name kept under n4.com
			nnsOp{kind: "add", name: "n0.com", typ: rtCNAME, data: "n1.com.", signer: u, bad: true}, // a target in fully qualified form is not a valid name
			nnsOp{kind: "del", name: "n1.com", typ: rtCNAME, signer: u},
			nnsOp{kind: "del", name: "n2.com", typ: rtCNAME, signer: u},
			nnsOp{kind: "add", name: "s.n4.com", typ: rtTXT, data: "ts", signer: u})
		for k := 0; k < 5; k++ {
			add(nnsOp{kind: "add", name: d.pre[k], typ: rtTXT, data: fmt.Sprintf("t%d", k), signer: u})
		}
		add(nnsOp{kind: "add", name: "n2.com", typ: rtTXT, data: "t2b", signer: u})
	default:
		hpanic("NNSDriver: unknown mode %s", mode)
	}
	return d
}

func (d *NNSDriver) Build() *World {
	n := 3 // committee-majority (2 of 3) differs from the Alphabet (3 of 3)
	if d.N > 0 {
		n = d.N
	}
	w := NewWorld(n)
	nh := w.Deploy("nns", CompileDir(Repo, "nns"), []any{[]any{[]any{"com", "ops@x.y"}}}).Hash
	c := CompileSource("nnsprobe", nnsProbeSrc, &compiler.Options{Name: "nnsprobe", NoEventsCheck: true, NoPermissionsCheck: true, Permissions: WildPermissions()})
	dp := w.Deploy("nnsprobe", c, nil)
	fc := CompileSource("nnsfwd", nnsFwdSrc, &compiler.Options{Name: "nnsfwd", NoEventsCheck: true, NoPermissionsCheck: true, Permissions: WildPermissions()})
	df := w.Deploy("nnsfwd", fc, []any{w.Acct("U2").Hash})
	rc := CompileSource("nnsrefuse", nnsRefuseSrc, &compiler.Options{Name: "nnsrefuse", NoEventsCheck: true, NoPermissionsCheck: true, Permissions: WildPermissions()})
	dr := w.Deploy("nnsrefuse", rc, nil)
	d.acc = map[string]util.Uint160{"U1": w.Acct("U1").Hash, "U2": w.Acct("U2").Hash, "D": w.Acct("D").Hash, "S": w.Acct("S").Hash,
		"P": dp.Hash, "F": df.Hash, "R": dr.Hash, "Cm": w.Comm, "Al": w.Alpha}
	if n%2 == 0 {
		// exactly half of an even committee is no majority
		half := MultiSigner(n/2, w.Keys, w.Pubs)
		d.acc["Half"] = half.ScriptHash()
		w.Signers[half.ScriptHash()] = half
		w.FundGAS(half.ScriptHash(), 1000_0000_0000)
	}
	if len(d.pre) > 0 {
		w.FundGAS(d.acc["U1"], 10000_0000_0000)
	}
	u1 := []neotest.Signer{w.Acct("U1").S}
	for _, n := range d.pre {
		life := regLifeS
		if l, ok := d.preLife[n]; ok {
			life = l
		}
		w.Invoke(nh, u1, "register", n, d.acc["U1"], "e@x.y", int64(3600), int64(600), life, int64(3600))
	}
	if d.Mode == "C12m" {
		w.Invoke(nh, u1, "renew", "aa.com", int64(1))
	}
	if d.Mode == "C11m" {
		w.Invoke(nh, u1, "renew", "aa.com", int64(1))
		w.Invoke(nh, u1, "renew", "y.x.aa.com", int64(1))
		w.Invoke(nh, u1, "transfer", d.acc["U2"], "x.aa.com", nil)
		w.Invoke(nh, u1, "transfer", d.acc["S"], "y.x.aa.com", nil)
	}
	if d.Mode == "C12r" {
		for k := 1; k <= 15; k++ {
			w.Invoke(nh, u1, "addRecord", "bb.com", int64(rtTXT), fmt.Sprintf("n%02d", k))
		}
	}
	w.Freeze()
	return w
}

// readNameState reads a NameState record straight from storage.
func readNameState(w *World, layer *dao.Simple, name string) (nameRec, bool) {
	key := append([]byte{0x21}, hash.RipeMD160([]byte(name)).BytesBE()...)
	si := layer.GetStorageItem(w.Contracts["nns"].ID, key)
	if si == nil {
		return nameRec{}, false
	}
	it, err := stackitem.Deserialize(si)
	if err != nil {
		hpanic("NameState of %s: %v", name, err)
	}
	f := it.Value().([]stackitem.Item)
	r := nameRec{}
	if b, err := f[0].TryBytes(); err == nil && len(b) == 20 {
		r.owner = Hx(b)
	}
	e, _ := f[2].TryInteger()
	r.exp = e.Uint64()
	if len(f) > 3 {
		if b, err := f[3].TryBytes(); err == nil && len(b) == 20 {
			r.admin = Hx(b)
		}
	}
	return r, true
}

func (d *NNSDriver) Init(w *World) Model {
	m := &nnsModel{names: map[string]nameRec{}, roots: map[string]bool{"com": true}, bal: map[string]int{}, recs: map[string][]recEntry{},
		soa: map[string]uint64{}, mail: map[string]string{}, now: w.TS}
	// deployment data (not behaviour under test) is read from storage: the TLD and the pre-registered names
	r, ok := readNameState(w, w.Root, "com")
	if !ok {
		hpanic("TLD com not found")
	}
	m.names["com"] = r
	for _, n := range d.pre {
		r, ok := readNameState(w, w.Root, n)
		if !ok {
			hpanic("pre-registered %s not found", n)
		}
		m.names[n] = r
		m.supply++
		m.bal[r.owner]++
		m.mail[n] = "e@x.y"
		// the serial is deployment data too: read it back once from the SOA record itself
		o := w.Read(w.Root, w.H, w.TS, w.Contracts["nns"].Hash, "getRecords", n, int64(rtSOA))
		l, ok := o.Ret0().([]any)
		if !ok || len(l) != 1 {
			hpanic("SOA of pre-registered %s: %v %s", n, o.Stack, o.Fault)
		}
		b, _ := AsBytes(l[0])
		var ser uint64
		fmt.Sscan(strings.Fields(string(b))[2], &ser)
		m.soa[n] = ser
	}
	if d.Mode == "C12r" {
		for k := 1; k <= 15; k++ {
			m.recs[rkey("bb.com", "bb.com", rtTXT)] = append(m.recs[rkey("bb.com", "bb.com", rtTXT)], recEntry{k - 1, fmt.Sprintf("n%02d", k)})
		}
	}
	return m
}

func (d *NNSDriver) NumOps() int { return len(d.ops) }
func (d *NNSDriver) OpName(_ *Node, i int) string {
	o := d.ops[i]
	switch o.kind {
	case "time":
		return "time(" + o.step + ")"
	case "renew":
		return fmt.Sprintf("renew(%s,%d) by %v", o.name, o.years, o.signer)
	case "renew1":
		return fmt.Sprintf("renew(%s) by %v", o.name, o.signer)
	case "add":
		return fmt.Sprintf("addRecord(%s,%d,%q) by %v", o.name, o.typ, o.data, o.signer)
	case "set":
		return fmt.Sprintf("setRecord(%s,%d,%d,%q) by %v", o.name, o.typ, o.id, o.data, o.signer)
	case "del":
		return fmt.Sprintf("deleteRecords(%s,%d) by %v", o.name, o.typ, o.signer)
	case "updSOA":
		return fmt.Sprintf("updateSOA(%s) by %v", o.name, o.signer)
	case "setPrice":
		return fmt.Sprintf("setPrice(%d) by %v", o.years, o.signer)
	}
	return fmt.Sprintf("%s(%s,%s) by %v", o.kind, o.name, o.who, o.signer)
}

func (m *nnsModel) earliestExp() (uint64, bool) {
	var best uint64
	ok := false
	for n, r := range m.names {
		if !strings.Contains(n, ".") {
			continue
		}
		if r.exp+1 > m.now && (!ok || r.exp < best) {
			best, ok = r.exp, true
		}
	}
	return best, ok
}

func (d *NNSDriver) Enabled(n *Node, i int) bool {
	m := n.M.(*nnsModel)
	o := d.ops[i]
	if o.kind != "time" {
		return true
	}
	max := 3
	if d.Mode != "C10" {
		max = 1
	}
	if m.steps >= max {
		return false
	}
	e, ok := m.earliestExp()
	switch o.step {
	case "exp-1":
		return ok && e-1 > m.now
	case "exp":
		return ok && e > m.now
	case "exp+1":
		return ok && e+1 > m.now
	}
	return true
}

func (d *NNSDriver) hexOf(sym string) string {
	if sym == "nil" || sym == "" {
		return ""
	}
	return Hx(d.acc[sym].BytesBE())
}

// perOpBlock: in the record modes every call gets its own block one second later, so that
// SOA serials (block time) tell mutations apart.
func (d *NNSDriver) adv() (uint32, uint64) {
	if d.Mode == "C12r" || d.Mode == "C12m" {
		return 1, 1000
	}
	return 0, 0
}

func (d *NNSDriver) Step(x *Exec, n *Node, i int) StepResult {
	w := x.W
	m := n.M.(*nnsModel)
	if m.now != n.TS {
		hpanic("NNS: model clock %d != node clock %d", m.now, n.TS)
	}
	nm := m.Clone().(*nnsModel)
	o := d.ops[i]
	h := w.Contracts["nns"].Hash
	where := map[string]any{"op": o.kind, "name": o.name}
	viol := func(class, msg string) StepResult {
		return StepResult{V: Viol(class, msg, where), Outcome: "violation"}
	}
	if o.kind == "time" {
		e, _ := m.earliestExp()
		switch o.step {
		case "exp-1":
			nm.now = e - 1
		case "exp":
			nm.now = e
		case "exp+1":
			nm.now = e + 1
		case "year":
			nm.now = m.now + yearMs
		}
		nm.steps++
		nn := &Node{L: n.L, H: n.H + 1, TS: nm.now, M: nm}
		return d.readback(x, n, nn, m, nm, "CLOCK", true, o, nil)
	}
	adv, advMs := d.adv()
	if adv > 0 {
		nm.now = m.now + advMs
		m = m.Clone().(*nnsModel) // the call executes at the advanced time
		m.now = nm.now
	}
	var signers []util.Uint160
	wit := map[string]bool{}
	for _, s := range o.signer {
		signers = append(signers, d.acc[s])
		wit[Hx(d.acc[s].BytesBE())] = true
	}
	committee := wit[Hx(w.Comm.BytesBE())]
	mayAct := func(r nameRec) bool {
		if r.owner == "" {
			return committee
		}
		return wit[r.owner] || (r.admin != "" && wit[r.admin])
	}
	expHalt := true
	selfTransfer := false
	unspecified := false
	var expRet any
	var expNotifs []Notif
	var scr []byte
	fr := frags(o.name)
	tld := len(fr) == 1
	switch o.kind {
	case "regTLD":
		life := int64(10 * 365 * 24 * 3600)
		if o.life > 0 {
			life = o.life
		}
		scr = Script(h, "registerTLD", o.name, "e@x.y", int64(3600), int64(600), life, int64(3600))
		if !committee || (m.roots[o.name] && m.alive(o.name)) {
			expHalt = false
		} else {
			nm.roots[o.name] = true
			nm.names[o.name] = nameRec{exp: m.now + uint64(life)*1000}
			nm.soa[o.name], nm.mail[o.name] = m.now, "e@x.y"
		}
	case "setPrice":
		scr = Script(h, "setPrice", o.years)
		if !committee {
			expHalt = false
		}
	case "register":
		owner := d.hexOf(o.who)
		scr = Script(h, "register", o.name, d.acc[o.who], "e@x.y", int64(3600), int64(600), regLifeS, int64(3600))
		parent := strings.Join(fr[1:], ".")
		switch {
		case !m.roots[fr[len(fr)-1]]:
			expHalt = false
		case !m.parentsAlive(o.name):
			expHalt = false
		case len(fr) > 2 && !mayAct(m.names[parent]):
			expHalt = false
		case m.parentHoldsRecordsFor(parent, o.name):
			expHalt = false
		case !wit[owner]:
			expHalt = false
		default:
			old, exists := m.names[o.name]
			if exists && m.now < old.exp {
				expRet = "i0"
				break
			}
			from := any(nil)
			if exists {
				nm.bal[old.owner]--
				from = "x" + old.owner
			} else {
				nm.supply++
			}
			nm.names[o.name] = nameRec{owner: owner, exp: m.now + uint64(regLifeS)*1000}
			nm.bal[owner]++
			nm.soa[o.name], nm.mail[o.name] = m.now, "e@x.y"
			expRet = "i1"
			expNotifs = []Notif{{"nns", "Transfer", []any{from, "x" + owner, "i1", NXs(o.name)}}}
		}
	case "transfer":
		to := d.hexOf(o.who)
		scr = Script(h, "transfer", d.acc[o.who], o.name, nil)
		r, ok := m.names[o.name]
		switch {
		case tld || !ok || m.now >= r.exp:
			expHalt = false
		case !wit[r.owner]:
			expRet = "i0"
		case o.who == "R":
			expHalt = false // the receiver's callback fails, and with it the whole invocation
		default:
			selfTransfer = r.owner == to
			final := to
			if o.who == "F" {
				final = d.hexOf("U2") // the forwarder passes it on before the outer transfer returns
			}
			if r.owner != final || final != to {
				nm.bal[r.owner]--
				nm.bal[final]++
				r2 := r
				r2.owner, r2.admin = final, ""
				nm.names[o.name] = r2
			}
			expRet = "i1"
			expNotifs = []Notif{{"nns", "Transfer", []any{"x" + r.owner, "x" + to, "i1", NXs(o.name)}}}
			if final != to {
				expNotifs = append(expNotifs, Notif{"nns", "Transfer", []any{"x" + to, "x" + final, "i1", NXs(o.name)}})
			}
		}
	case "renew", "renew1":
		scr = Script(h, "renew", o.name, o.years)
		if o.kind == "renew1" {
			scr = Script(h, "renew", o.name) // the one-argument overload: one year
			o.years = 1
		}
		r, ok := m.names[o.name]
		switch {
		case o.years < 1 || o.years > 10:
			expHalt = false
		case !ok || m.now >= r.exp || !m.parentsAlive(o.name):
			expHalt = false
		case !mayAct(r):
			expHalt = false
		default:
			ne := r.exp + uint64(o.years)*yearMs
			if !tld && ne > m.now+10*yearMs {
				expHalt = false
				break
			}
			r2 := r
			r2.exp = ne
			nm.names[o.name] = r2
			expRet = NI(int64(ne))
			expNotifs = []Notif{{"nns", "Renew", []any{NXs(o.name), NI(int64(r.exp)), NI(int64(ne))}}}
		}
	case "setAdmin":
		adm := d.hexOf(o.who)
		var admArg any
		if o.who != "nil" {
			admArg = d.acc[o.who]
		}
		scr = Script(h, "setAdmin", o.name, admArg)
		r, ok := m.names[o.name]
		switch {
		case adm != "" && !wit[adm]:
			expHalt = false
		case tld || !ok || m.now >= r.exp || !m.parentsAlive(o.name):
			expHalt = false
		case !wit[r.owner]:
			expHalt = false
		default:
			r2 := r
			r2.admin = adm
			nm.names[o.name] = r2
			old, na := any(nil), any(nil)
			if r.admin != "" {
				old = "x" + r.admin
			}
			if adm != "" {
				na = "x" + adm
			}
			expNotifs = []Notif{{"nns", "SetAdmin", []any{NXs(o.name), old, na}}}
		}
	case "updSOA":
		scr = Script(h, "updateSOA", o.name, o.data, int64(3600), int64(600), int64(1000), int64(3600))
		r, ok := m.names[o.name]
		if !ok || m.now >= r.exp || !m.parentsAlive(o.name) || !mayAct(r) {
			expHalt = false
		} else {
			nm.soa[o.name], nm.mail[o.name] = m.now, o.data
		}
	case "add", "set", "del":
		switch o.kind {
		case "add":
			scr = Script(h, "addRecord", o.name, int64(o.typ), o.data)
		case "set":
			scr = Script(h, "setRecord", o.name, int64(o.typ), int64(o.id), o.data)
		case "del":
			scr = Script(h, "deleteRecords", o.name, int64(o.typ))
		}
		tok := m.token(o.name)
		r, ok := m.names[tok]
		k := rkey(tok, o.name, o.typ)
		cur := m.recs[k]
		supported := o.typ == rtA || o.typ == rtCNAME || o.typ == rtTXT || o.typ == rtAAAA
		switch {
		case len(frags(tok)) == 1 || !ok || m.now >= r.exp || !m.parentsAlive(tok):
			expHalt = false
		case !mayAct(r):
			expHalt = false
		case o.kind == "del":
			if o.typ == rtSOA {
				expHalt = false
			} else {
				delete(nm.recs, k)
				nm.soa[tok] = m.now
			}
		case !supported || o.bad:
			expHalt = false
		case o.kind == "add":
			dup := false
			for _, e := range cur {
				if e.data == o.data {
					dup = true
				}
			}
			if dup || len(cur) >= 16 || (o.typ == rtCNAME && len(cur) > 0) {
				expHalt = false
			} else {
				nm.recs[k] = append(append([]recEntry{}, cur...), recEntry{len(cur), o.data})
				nm.soa[tok] = m.now
			}
		case o.kind == "set":
			if o.id >= len(cur) {
				expHalt = false
			} else {
				for _, e := range cur {
					if e.data == o.data && e.id != o.id {
						where["via"] = "setRecord"
						unspecified = true // would create a duplicate value: see the clause below
					}
				}
				nl := append([]recEntry{}, cur...)
				nl[o.id].data = o.data
				nm.recs[k] = nl
				nm.soa[tok] = m.now
			}
		}
	}
	obs, nn := x.Do(n, Call{Script: scr, Signers: signers, Adv: adv, AdvMs: advMs, Label: d.OpName(n, i)})
	changed := len(DiffDumps(w.FullDump(n.L), w.FullDump(nn.L))) > 0
	if unspecified {
		// setRecord towards a value another id already holds: the statement wants distinct
		// values, so the only acceptable behaviour is a refusal without effect
		if obs.Halt {
			return viol("duplicate-values", fmt.Sprintf("%s succeeded and %s now holds the value %q twice", d.OpName(n, i), o.name, o.data))
		}
		if changed {
			return viol("refused-but-changed", "faulted call changed state")
		}
		return StepResult{Next: &Node{L: n.L, H: n.H, TS: n.TS, M: n.M}, Outcome: "FAULT"}
	}
	if obs.Halt != expHalt {
		if !expHalt {
			where["expected"] = "refusal"
		}
		return viol("outcome", fmt.Sprintf("model expects halt=%v, contract halt=%v fault=%q", expHalt, obs.Halt, obs.Fault))
	}
	if !obs.Halt {
		if changed {
			return viol("refused-but-changed", "faulted call changed state")
		}
		// a faulted call has no effect at all: the successor is the unchanged state (in the
		// record modes the block it would have opened is shared with the next call)
		mm := n.M.(*nnsModel)
		return d.readback(x, n, &Node{L: n.L, H: n.H, TS: n.TS, M: mm}, mm, mm, "FAULT", false, o, nil)
	}
	if expRet != nil && !Same(obs.Ret0(), expRet) {
		return viol("result", fmt.Sprintf("got %v want %v", obs.Stack, expRet))
	}
	var got []Notif
	for _, nf := range obs.Notifs {
		if nf.Contract == "nns" {
			got = append(got, nf)
		}
	}
	// the statements fix the NEP-11 Transfer announcements (one per change of ownership); Renew / SetAdmin events and
	// whether a transfer to oneself is announced are the contract's own business
	onlyTransfers := func(l []Notif) []Notif {
		var out []Notif
		for _, nf := range l {
			if nf.Name == "Transfer" {
				out = append(out, nf)
			}
		}
		return out
	}
	gotT, expT := onlyTransfers(got), onlyTransfers(expNotifs)
	if selfTransfer && len(gotT) == 0 {
		expT = nil
	}
	if !SameNotifSet(gotT, expT) {
		return viol("notifications", fmt.Sprintf("got %v want %v", got, expNotifs))
	}
	if Same(expRet, "i0") && changed {
		return viol("refused-but-changed", "a call that returned false changed state")
	}
	outcome := "HALT"
	if Same(expRet, "i0") {
		outcome = "HALT:false"
	}
	return d.readback(x, n, nn, m, nm, outcome, changed, o, nil)
}

// parentHoldsRecordsFor: does `parent` (as a token) hold records for name or for sub-names of it?
func (m *nnsModel) parentHoldsRecordsFor(parent, name string) bool {
	for k, v := range m.recs {
		if len(v) == 0 {
			continue
		}
		p := strings.Split(k, "|")
		if p[0] != parent {
			continue
		}
		if strings.HasSuffix(p[1], "."+name) { // strict sub-names only, as the statement says
			return true
		}
	}
	return false
}

func (d *NNSDriver) readback(x *Exec, prev, nn *Node, m, nm *nnsModel, outcome string, changed bool, o nnsOp, _ any) StepResult {
	w := x.W
	h := w.Contracts["nns"].Hash
	where := map[string]any{"op": o.kind, "name": o.name}
	viol := func(class, msg string, wh map[string]any) StepResult {
		return StepResult{V: Viol(class, msg, wh), Outcome: "violation"}
	}
	rd := func(method string, args ...any) Obs { return w.Read(nn.L, nn.H, nn.TS, h, method, args...) }
	var soft []*Violation
	if nm.now != nn.TS {
		hpanic("NNS readback: model clock %d != node clock %d", nm.now, nn.TS)
	}
	// ---- NEP-11 accounting ----
	ts := rd("totalSupply")
	sum := 0
	for _, sym := range []string{"U1", "U2", "P", "F", "R", "D", "S"} {
		b := rd("balanceOf", d.acc[sym])
		want := nm.bal[d.hexOf(sym)]
		if !Same(b.Ret0(), NI(int64(want))) {
			return viol("balanceOf", fmt.Sprintf("balanceOf(%s)=%v model %d", sym, b.Stack, want), where)
		}
		sum += want
		tk := rd("tokensOf", d.acc[sym])
		var wantT, gotT []string
		for n, r := range nm.names {
			if strings.Contains(n, ".") && r.owner == d.hexOf(sym) {
				wantT = append(wantT, fmt.Sprint(NXs(n)))
			}
		}
		sort.Strings(wantT)
		if l, ok := tk.Ret0().([]any); ok {
			for _, e := range l {
				gotT = append(gotT, fmt.Sprint(e))
			}
		}
		sort.Strings(gotT)
		if fmt.Sprint(gotT) != fmt.Sprint(wantT) {
			return viol("tokensOf", fmt.Sprintf("tokensOf(%s)=%v model %v", sym, gotT, wantT), where)
		}
	}
	if !Same(ts.Ret0(), NI(int64(nm.supply))) || sum != nm.supply {
		return viol("supply", fmt.Sprintf("totalSupply=%v model %d sum of balances %d", ts.Stack, nm.supply, sum), where)
	}
	// ---- per-name getters ----
	for _, n := range d.names {
		fr := frags(n)
		wh := map[string]any{"op": o.kind, "name": n}
		r, ok := nm.names[n]
		reachable := ok && nm.now < r.exp && nm.parentsAlive(n)
		ow := rd("ownerOf", n)
		pr := rd("properties", n)
		if reachable {
			if !Same(ow.Ret0(), "x"+r.owner) {
				return viol("ownerOf", fmt.Sprintf("ownerOf(%s)=%v %q model %s", n, ow.Stack, ow.Fault, r.owner), wh)
			}
			ps := fmt.Sprint(pr.Ret0())
			if !pr.Halt || !strings.Contains(ps, fmt.Sprintf("i%d", r.exp)) {
				return viol("properties", fmt.Sprintf("properties(%s)=%v model exp %d", n, pr.Stack, r.exp), wh)
			}
			wantAdm := "<nil>"
			if r.admin != "" {
				wantAdm = "x" + r.admin
			}
			if !strings.Contains(ps, "["+fmt.Sprint(NXs("admin"))+" "+wantAdm+"]") {
				return viol("properties-admin", fmt.Sprintf("properties(%s)=%v model admin %s", n, pr.Stack, wantAdm), wh)
			}
		} else if ow.Halt || pr.Halt {
			return viol("answered-unreachable", fmt.Sprintf("%s: ownerOf halt=%v properties halt=%v though the name or a parent is missing or expired", n, ow.Halt, pr.Halt), wh)
		}
		// availability: only where the statement speaks (TLD known, parents alive)
		if nm.roots[fr[len(fr)-1]] && nm.parentsAlive(n) {
			av := rd("isAvailable", n)
			want := "i1"
			if ok && nm.now < r.exp {
				want = "i0"
			}
			parent := strings.Join(fr[1:], ".")
			if want == "i1" && nm.parentHoldsRecordsFor(parent, n) {
				want = "i0" // cannot be registered while the parent holds records for it
			}
			if !Same(av.Ret0(), want) {
				return viol("isAvailable", fmt.Sprintf("isAvailable(%s)=%v %q want %s (now=%d exp=%d)", n, av.Stack, av.Fault, want, nm.now, r.exp), wh)
			}
		}
	}
	if d.Mode == "C10" {
		// top-level names are names too: taken while they live, free again from the instant they run out (for the
		// committee, which alone can register them), and free when they never existed
		for _, t := range []string{"com", "org", "net"} {
			av := rd("isAvailable", t)
			want := "i1"
			if nm.roots[t] && nm.alive(t) {
				want = "i0"
			}
			if !Same(av.Ret0(), want) {
				return viol("isAvailable", fmt.Sprintf("isAvailable(%s)=%v %q want %s (top-level name, now=%d exp=%d)", t, av.Stack, av.Fault, want, nm.now, nm.names[t].exp), map[string]any{"op": o.kind, "name": t, "tld": true})
			}
		}
		nn.M = nm
		return StepResult{Next: nn, Outcome: outcome, Changed: changed}
	}
	// ---- records ----
	types := []int{rtA, rtCNAME, rtTXT, rtAAAA}
	for _, n := range d.recordNames() {
		tok := nm.token(n)
		r, ok := nm.names[tok]
		wh := map[string]any{"op": o.kind, "name": n}
		live := ok && len(frags(tok)) > 1 && nm.now < r.exp && nm.parentsAlive(tok)
		below := len(frags(n)) - len(frags(tok))
		for _, t := range types {
			var want []any
			for _, e := range nm.recs[rkey(tok, n, t)] {
				want = append(want, NXs(e.data))
			}
			g := rd("getRecords", n, int64(t))
			if live {
				if !g.Halt && below >= 2 {
					wh["levels_below_token"] = below
					rs := rd("resolve", n, int64(t))
					if rs.Halt {
						if t == rtTXT { // one report per name and step is enough
							soft = append(soft, Viol("read-paths-disagree", fmt.Sprintf("getRecords(%s,%d) faults (%s) although %s is alive and resolve answers %v", n, t, g.Fault, tok, rs.Stack), wh))
						}
						continue
					}
				}
				if !g.Halt || !sameList(g.Ret0(), want) {
					return viol("getRecords", fmt.Sprintf("getRecords(%s,%d)=%v %q model %v", n, t, g.Stack, g.Fault, want), wh)
				}
			} else if g.Halt && !emptyList(g.Ret0()) {
				return viol("records-reachable-after-expiry", fmt.Sprintf("getRecords(%s,%d)=%v though %s is not alive", n, t, g.Stack, tok), wh)
			}
		}
		// getAllRecords: every record of the name, ordered by (type, id)
		ga := rd("getAllRecords", n)
		if live && (below < 2 || ga.Halt) { // deep sub-names: judged whenever the method answers at all
			var want []string
			for _, t := range []int{rtA, rtCNAME, rtSOA, rtTXT, rtAAAA} {
				if t == rtSOA {
					if n == tok {
						want = append(want, "SOA")
					}
					continue
				}
				for _, e := range nm.recs[rkey(tok, n, t)] {
					want = append(want, fmt.Sprintf("%d/%d/%s", t, e.id, e.data))
				}
			}
			var got []string
			if l, ok := ga.Ret0().([]any); ok {
				for _, e := range l {
					f, _ := e.([]any)
					if len(f) != 4 {
						continue
					}
					nb, _ := AsBytes(f[0])
					ty, _ := AsInt(f[1])
					db, _ := AsBytes(f[2])
					id, _ := AsInt(f[3])
					if string(nb) != n {
						return viol("getAllRecords", fmt.Sprintf("getAllRecords(%s) returned a record of %q", n, nb), wh)
					}
					if ty.Int64() == rtSOA {
						got = append(got, "SOA")
						// serial = time of the last mutation of the token
						fs := strings.Fields(string(db))
						if len(fs) != 7 || fs[2] != fmt.Sprint(nm.soa[tok]) || fs[1] != nm.mail[tok] {
							return viol("soa-serial", fmt.Sprintf("SOA of %s is %q, model serial %d mail %s", tok, db, nm.soa[tok], nm.mail[tok]), wh)
						}
						continue
					}
					got = append(got, fmt.Sprintf("%d/%d/%s", ty.Int64(), id.Int64(), db))
				}
			}
			// values are ordered within a type (the statement's "ordered list ... per name and type"); in which order
			// the types follow one another is the contract's business
			byType := func(l []string) map[string][]string {
				m := map[string][]string{}
				for _, e := range l {
					t := strings.SplitN(e, "/", 2)[0]
					m[t] = append(m[t], e)
				}
				return m
			}
			if !ga.Halt || len(got) != len(want) || fmt.Sprint(byType(got)) != fmt.Sprint(byType(want)) {
				return viol("getAllRecords", fmt.Sprintf("getAllRecords(%s)=%v %q model %v", n, got, ga.Fault, want), wh)
			}
		} else if !live && ga.Halt && !emptyList(ga.Ret0()) {
			return viol("records-reachable-after-expiry", fmt.Sprintf("getAllRecords(%s)=%v though %s is not alive", n, ga.Stack, tok), wh)
		}
		// resolve, with and without the trailing dot
		for _, t := range []int{rtTXT, rtA, rtCNAME, rtAAAA} {
			want, verdict := nm.resolve(n, t)
			for _, q := range []string{n, n + "."} {
				rs := rd("resolve", q, int64(t))
				switch verdict {
				case "ok":
					var wl []any
					for _, s := range want {
						wl = append(wl, NXs(s))
					}
					if !rs.Halt || !sameList(rs.Ret0(), wl) {
						return viol("resolve", fmt.Sprintf("resolve(%s,%d)=%v %q model %v", q, t, rs.Stack, rs.Fault, want), wh)
					}
				case "fail":
					if rs.Halt {
						return viol("resolve-should-fail", fmt.Sprintf("resolve(%s,%d)=%v, model: chain of >= 4 links / cycle / unreachable name", q, t, rs.Stack), wh)
					}
				}
			}
		}
	}
	nn.M = nm
	return StepResult{Next: nn, Outcome: outcome, Changed: changed, Soft: soft}
}

func (d *NNSDriver) recordNames() []string {
	switch d.Mode {
	case "C11":
		return []string{"aa.com", "x.aa.com"}
	case "C12c":
		return append(append([]string{}, d.names...), "s.n4.com")
	}
	return d.names
}

// resolve follows the statement: T-records of the name followed by those reached through a
// CNAME chain of up to two links; four or more links (or a cycle) fail; exactly three links
// are unspecified. verdict: ok | fail | unspecified.
func (m *nnsModel) resolve(name string, typ int) ([]string, string) {
	var res []string
	cur := name
	links := 0
	for {
		tok := m.token(cur)
		r, ok := m.names[tok]
		if !ok || len(frags(tok)) == 1 || m.now >= r.exp || !m.parentsAlive(tok) {
			if links == 0 {
				return nil, "fail"
			}
			return nil, "unspecified" // a CNAME into nowhere: the statement is silent
		}
		for _, e := range m.recs[rkey(tok, cur, typ)] {
			res = append(res, e.data)
		}
		cn := m.recs[rkey(tok, cur, rtCNAME)]
		if len(cn) == 0 || typ == rtCNAME {
			break
		}
		links++
		if links > 8 {
			return nil, "fail" // cycle
		}
		cur = cn[0].data
	}
	switch {
	case links <= 2:
		return res, "ok"
	case links == 3:
		return nil, "unspecified"
	}
	return nil, "fail"
}

func sameList(got any, want []any) bool {
	l, ok := got.([]any)
	if !ok {
		return got == nil && len(want) == 0
	}
	if len(l) != len(want) {
		return false
	}
	for i := range l {
		if !Same(l[i], want[i]) {
			return false
		}
	}
	return true
}

func emptyList(v any) bool {
	if v == nil {
		return true
	}
	l, ok := v.([]any)
	return ok && len(l) == 0
}
