package engine

import (
	"encoding/base64"
	"encoding/binary"
	"encoding/csv"
	"encoding/json"
	"errors"
	"fmt"
	"github.com/nspcc-dev/neo-go/pkg/vm/stackitem"
	"io"
	"os"
	"path/filepath"
	"sort"
	"strings"
	"time"

	"github.com/nspcc-dev/neo-go/pkg/config"
	"github.com/nspcc-dev/neo-go/pkg/config/netmode"
	"github.com/nspcc-dev/neo-go/pkg/core"
	"github.com/nspcc-dev/neo-go/pkg/core/dao"
	"github.com/nspcc-dev/neo-go/pkg/core/native"
	"github.com/nspcc-dev/neo-go/pkg/core/state"
	"github.com/nspcc-dev/neo-go/pkg/core/storage"
	"github.com/nspcc-dev/neo-go/pkg/util"
	"go.uber.org/zap"
)

// C16, third part: the recorded network dumps. The old executables recorded in the dump
// answer the read API before, the tree's contract after the update; differential, with no
// hand-written expectation.

type dumpContract struct {
	Name  string         `json:"name"`
	State state.Contract `json:"state"`
}

type dumpData struct {
	ID       string
	States   []dumpContract
	Storage  map[string][]KV
	Contract map[string]*dumpContract
}

// findDumps lists <dir>/<label>-<block>-contracts.json files of the tree under test.
func findDumps() []string {
	var out []string
	for _, dir := range []string{filepath.Join(Repo, "testdata"), filepath.Join(Repo, "contracts", "nns", "testdata")} {
		es, _ := os.ReadDir(dir)
		for _, e := range es {
			if strings.HasSuffix(e.Name(), "-contracts.json") {
				out = append(out, filepath.Join(dir, strings.TrimSuffix(e.Name(), "-contracts.json")))
			}
		}
	}
	sort.Strings(out)
	return out
}

func loadDump(prefix string) *dumpData {
	d := &dumpData{ID: filepath.Base(prefix), Storage: map[string][]KV{}, Contract: map[string]*dumpContract{}}
	b, err := os.ReadFile(prefix + "-contracts.json")
	if err != nil {
		hpanic("dump: %v", err)
	}
	if err := json.Unmarshal(b, &d.States); err != nil {
		hpanic("dump %s: %v", prefix, err)
	}
	for i := range d.States {
		d.Contract[d.States[i].Name] = &d.States[i]
	}
	f, err := os.Open(prefix + "-storage.csv")
	if err != nil {
		hpanic("dump: %v", err)
	}
	defer f.Close()
	r := csv.NewReader(f)
	r.FieldsPerRecord = 3
	for {
		rec, err := r.Read()
		if errors.Is(err, io.EOF) {
			break
		}
		if err != nil {
			hpanic("dump %s: %v", prefix, err)
		}
		k, e1 := base64.StdEncoding.DecodeString(rec[1])
		v, e2 := base64.StdEncoding.DecodeString(rec[2])
		if e1 != nil || e2 != nil {
			hpanic("dump %s: bad base64", prefix)
		}
		d.Storage[rec[0]] = append(d.Storage[rec[0]], KV{k, v})
	}
	return d
}

type nopCloseStore struct{ storage.Store }

func (nopCloseStore) Close() error { return nil }

// newWorldFromDump loads the dumped contracts and their storages into a fresh chain.
func newWorldFromDump(d *dumpData) *World {
	low := storage.NewMemoryStore()
	cached := storage.NewMemCachedStore(low)
	_dao := dao.NewSimple(low, false)
	natives := native.NewContracts(config.ProtocolConfiguration{})
	if err := natives.Management.InitializeCache(0, _dao); err != nil {
		hpanic("dump: management cache: %v", err)
	}
	ids := map[string]int32{}
	for i := range d.States {
		st := d.States[i].State
		st.UpdateCounter = 0
		if err := native.PutContractState(_dao, &st); err != nil {
			hpanic("dump: put contract: %v", err)
		}
		ids[d.States[i].Name] = st.ID
	}
	for name, kvs := range d.Storage {
		id, ok := ids[name]
		if !ok {
			continue
		}
		for _, kv := range kvs {
			key := make([]byte, 5+len(kv.K))
			key[0] = byte(_dao.Version.StoragePrefix)
			binary.LittleEndian.PutUint32(key[1:], uint32(id))
			copy(key[5:], kv.K)
			cached.Put(key, kv.V)
		}
	}
	if _, err := _dao.PersistSync(); err != nil {
		hpanic("dump: persist: %v", err)
	}
	if _, err := cached.PersistSync(); err != nil {
		hpanic("dump: persist: %v", err)
	}
	// contracts written straight into the store become visible to the Management cache only
	// when the chain is initialised a second time (neo-go#2926): run it once and close it
	{
		w0keys := NewWorldOnStoreDry(low)
		_ = w0keys
	}
	w := NewWorldOnStore(1, nopCloseStore{low})
	for i := range d.States {
		st := d.States[i].State
		w.Contracts[d.States[i].Name] = &Deployed{Name: d.States[i].Name, Hash: st.Hash, ID: st.ID}
		w.order = append(w.order, d.States[i].Name)
	}
	return w
}

// NewWorldOnStoreDry initialises a chain with the standard one-key committee on the store and
// closes it again (without closing the store).
func NewWorldOnStoreDry(low storage.Store) bool {
	k := DetKey(0x22, 0)
	cfg := config.Blockchain{ProtocolConfiguration: config.ProtocolConfiguration{
		Magic: netmode.UnitTestNet, MaxTraceableBlocks: 100000, TimePerBlock: time.Second,
		StandbyCommittee: []string{Hx(k.PublicKey().Bytes())}, ValidatorsCount: 1, VerifyTransactions: true,
		MaxValidUntilBlockIncrement: 100000,
	}}
	bc, err := core.NewBlockchain(nopCloseStore{low}, cfg, zap.NewNop())
	if err != nil {
		hpanic("dump: chain: %v", err)
	}
	go bc.Run()
	bc.Close()
	return true
}

type dumpCase struct {
	Contract  string
	NoBallots bool // the stored ballot list is emptied first (planted write, not replayable on blocks)
	Later     bool // the update happens eight years after the chain's start: recorded names (top-level ones too) have run out
}

type DumpGrid struct {
	prefix string
	d      *dumpData
}

func NewDumpGrid(prefix string) *DumpGrid { return &DumpGrid{prefix: prefix} }
func (g *DumpGrid) Name() string          { return "upgrade-dump-" + filepath.Base(g.prefix) }
func (g *DumpGrid) Rule() string {
	return "every supported contract of the recorded dump: read API through the recorded old executable, update to the tree's contract with the committee witness, read API again; zero-argument safe methods present in both manifests plus per-item getters for every account/container/owner/id/name found in the dumped storage; non-trivial = the recorded version is inside the supported window; distinct by contract"
}

func (g *DumpGrid) Build() *World {
	g.d = loadDump(g.prefix)
	w := newWorldFromDump(g.d)
	w.Freeze()
	return w
}

var dumpSupported = map[string]string{"balance": "balance", "container": "container", "netmap": "netmap", "neofsid": "neofsid", "audit": "audit", "reputation": "reputation", "nns": "nns", "alphabet0": "alphabet"}

func (g *DumpGrid) Cases(string) []GridCase {
	d := loadDump(g.prefix)
	var out []GridCase
	var names []string
	for n := range d.Contract {
		if _, ok := dumpSupported[n]; ok {
			names = append(names, n)
		}
	}
	sort.Strings(names)
	for _, n := range names {
		out = append(out, GridCase{Name: fmt.Sprintf("%s of dump %s", n, d.ID), Data: dumpCase{Contract: n}})
		// the same storage once the recorded votes have run out (on the young chain of this check the recorded
		// ballot heights would stay "fresh" for ever and the migration would never run): ballot list emptied
		out = append(out, GridCase{Name: fmt.Sprintf("%s of dump %s, ballots run out", n, d.ID), Data: dumpCase{Contract: n, NoBallots: true}})
		if n == "nns" {
			// whatever the storage holds: also names - top-level ones included - whose term is over when the update comes
			out = append(out, GridCase{Name: fmt.Sprintf("%s of dump %s, eight years later", n, d.ID), Data: dumpCase{Contract: n, Later: true}})
		}
	}
	return out
}

// canon maps a normalised value to a form in which Integer/ByteString/Boolean/Null renderings
// of the same bytes coincide (old and new manifests type some returns differently).
func canon(v any) any {
	switch t := v.(type) {
	case nil:
		return "x"
	case string:
		if b, ok := AsBytes(t); ok {
			return "x" + Hx(b)
		}
		return t
	case []any:
		out := make([]any, len(t))
		for i := range t {
			out[i] = canon(t[i])
		}
		return out
	}
	return v
}

// leaves flattens nested lists into the sequence of their scalar leaves.
func leaves(v any, out *[]string) {
	if l, ok := v.([]any); ok {
		for _, e := range l {
			leaves(e, out)
		}
		return
	}
	*out = append(*out, fmt.Sprint(v))
}

func emptyish(v any) bool {
	if l, ok := v.([]any); ok {
		return len(l) == 0
	}
	return v == nil || fmt.Sprint(v) == "x"
}

func lenientEq(contract string, a, b any) bool {
	if emptyish(a) && emptyish(b) {
		return true // Null, empty ByteString and empty Array all read as "nothing there"
	}
	la, okA := a.([]any)
	lb, okB := b.([]any)
	if okA && okB && len(la) > 0 && len(lb) > 0 && fmt.Sprint(la[0]) == "map" && fmt.Sprint(lb[0]) == "map" {
		// a map may gain keys (NNS properties got "admin"); every old key keeps its value
		nm := map[string]any{}
		for _, p := range lb[1:] {
			if kv, ok := p.([]any); ok && len(kv) == 2 {
				nm[fmt.Sprint(kv[0])] = kv[1]
			}
		}
		for _, p := range la[1:] {
			kv, ok := p.([]any)
			if !ok || len(kv) != 2 {
				return false
			}
			nv, have := nm[fmt.Sprint(kv[0])]
			if !have || !lenientEq(contract, kv[1], nv) {
				return false
			}
		}
		return true
	}
	if okA && okB && contract == "netmap" && len(la) == len(lb) {
		// the documented netmap migration flattens {{blob}, state} to {blob, state} and gives
		// snapshot nodes a trailing state: per node, the old leaves are a prefix of the new ones
		same := true
		for i := range la {
			var x, y []string
			leaves(la[i], &x)
			leaves(lb[i], &y)
			if len(x) > len(y) || len(y) > len(x)+1 || strings.Join(x, "|") != strings.Join(y[:len(x)], "|") {
				same = false
				break
			}
		}
		if same {
			return true
		}
	}
	if okA && okB {
		if len(la) == len(lb) {
			for i := range la {
				if !lenientEq(contract, la[i], lb[i]) {
					return false
				}
			}
			return true
		}
		// the documented netmap migration gives every stored node a trailing state field
		if contract == "netmap" && len(lb) == len(la)+1 {
			if _, scalar := lb[len(lb)-1].(string); scalar {
				return lenientEq(contract, la, lb[:len(la)])
			}
		}
		return false
	}
	return fmt.Sprint(a) == fmt.Sprint(b)
}

func (g *DumpGrid) Eval(x *Exec, root *Node, gc GridCase) GridResult {
	w := x.W
	c := gc.Data.(dumpCase)
	dc := g.d.Contract[c.Contract]
	src := dumpSupported[c.Contract]
	h := dc.State.Hash
	where := map[string]any{"dump": g.d.ID, "contract": c.Contract}
	var vs []*Violation
	prev, cur := repoVersions()
	vr := w.Read(root.L, root.H, root.TS, h, "version")
	vi, ok := AsInt(vr.Ret0())
	if !ok {
		return GridResult{Outcome: "no-version-method", V: nil}
	}
	ver := vi.Int64()
	fresh := CompileDir(Repo, src)
	// ---- the read plan ----
	type rd struct {
		m    string
		args []any
	}
	var plan []rd
	newSafe := map[string]bool{}
	for _, m := range fresh.Manifest.ABI.Methods {
		if m.Safe {
			newSafe[fmt.Sprintf("%s/%d", m.Name, len(m.Parameters))] = true
		}
	}
	has := func(name string, n int) bool {
		if !newSafe[fmt.Sprintf("%s/%d", name, n)] {
			return false
		}
		if name == "innerRingList" {
			// not contract data any more: with Notary the list is the chain's NeoFSAlphabet role (RoleManagement),
			// which a contract dump does not carry
			return false
		}
		return dc.State.Manifest.ABI.GetMethod(name, n) != nil
	}
	for _, m := range dc.State.Manifest.ABI.Methods {
		if len(m.Parameters) == 0 && m.Name != "version" && has(m.Name, 0) {
			plan = append(plan, rd{m.Name, nil})
		}
	}
	kvs := g.d.Storage[c.Contract]
	lim := 60
	add := func(m string, n int, args ...any) {
		if has(m, n) && len(plan) < 400 {
			plan = append(plan, rd{m, args})
		}
	}
	cnt := 0
	for _, kv := range kvs {
		if cnt >= lim {
			break
		}
		switch src {
		case "balance":
			if len(kv.K) == 20 {
				add("balanceOf", 1, U160(kv.K))
				cnt++
			} else if len(kv.K) == 21 && kv.K[0] == 'a' {
				add("balanceOf", 1, U160(kv.K[1:]))
				cnt++
			}
		case "container":
			var cid []byte
			if len(kv.K) == 32 {
				cid = kv.K
			} else if len(kv.K) == 33 && kv.K[0] == 'x' {
				cid = kv.K[1:]
			}
			if cid != nil {
				add("get", 1, cid)
				add("owner", 1, cid)
				add("eACL", 1, cid)
				cnt++
			}
			if len(kv.K) == 57 {
				add("list", 1, kv.K[:25])
			} else if len(kv.K) == 58 && kv.K[0] == 'o' {
				add("list", 1, kv.K[1:26])
			}
		case "netmap":
			if strings.HasPrefix(string(kv.K), "config") {
				add("config", 1, kv.K[6:])
			}
		case "neofsid":
			if len(kv.K) == 1+25+33 && kv.K[0] == 'o' {
				add("key", 1, kv.K[1:26])
				cnt++
			} else if len(kv.K) == 25 {
				add("key", 1, kv.K)
				cnt++
			}
		case "audit":
			if len(kv.K) > 40 {
				add("get", 1, kv.K)
				cnt++
			}
		case "reputation":
			if len(kv.K) > 1 && kv.K[0] == 'c' {
				add("getByID", 1, kv.K[1:])
				cnt++
			}
		}
	}
	if src == "netmap" {
		for dd := int64(0); dd < 10; dd++ {
			add("snapshot", 1, dd)
		}
	}
	if src == "nns" {
		tk := w.Read(root.L, root.H, root.TS, h, "tokens")
		if l, ok := tk.Ret0().([]any); ok {
			for i, t := range l {
				if i >= 40 {
					break
				}
				nb, _ := AsBytes(t)
				if !strings.Contains(string(nb), ".") {
					continue // TLDs stopped being tokens with an owner in 0.18.0 (the documented migration)
				}
				add("ownerOf", 1, nb)
				add("properties", 1, nb)
				add("getAllRecords", 1, string(nb))
				add("getRecords", 2, string(nb), int64(rtTXT))
				add("resolve", 2, string(nb), int64(rtTXT))
			}
		}
	}
	read := func(n *Node) []any {
		var out []any
		for _, p := range plan {
			r := w.Read(n.L, n.H, n.TS, h, p.m, p.args...)
			if r.Halt {
				out = append(out, canon(r.Ret0()))
			} else {
				out = append(out, "FAULT")
			}
		}
		return out
	}
	if c.Later {
		root = &Node{L: root.L, H: root.H, TS: root.TS + 8*365*24*3600*1000, M: root.M}
		x = &Exec{W: w} // not recorded for the block replay (the clock jump is outside the recorded call list)
	}
	if c.NoBallots {
		si := root.L.GetStorageItem(dc.State.ID, []byte("ballots"))
		if si == nil {
			return GridResult{Outcome: "no-ballots-stored"}
		}
		empty, _ := stackitem.Serialize(stackitem.NewArray(nil))
		layer := root.L.GetPrivate()
		layer.PutStorageItem(dc.State.ID, []byte("ballots"), empty)
		root = &Node{L: layer, H: root.H, TS: root.TS, M: root.M}
		x = &Exec{W: w} // nothing of this case is recorded: a chain cannot reproduce the planted write
	}
	before := read(root)
	// ---- the update, as the committee ----
	flag := ""
	for _, kv := range kvs {
		if string(kv.K) == "notary" {
			flag = fmt.Sprintf("notary=%x", kv.V)
		}
	}
	nb, mb := fresh.Bytes()
	var data any
	if src == "alphabet" {
		data = []any{false, util.Uint160{3, 2, 1}, []byte{}, "", int64(0), int64(0)}
	}
	o, after := x.Do(root, Call{Script: Script(h, "update", nb, mb, data), Signers: []util.Uint160{w.Comm}, Label: gc.Name})
	inWindow := ver >= prev && ver < cur
	where["version"] = ver
	out := "refused"
	switch {
	case !inWindow:
		if o.Halt {
			vs = append(vs, Viol("version-window", fmt.Sprintf("%s (version %d): update accepted outside %d <= v < %d", gc.Name, ver, prev, cur), where))
		}
	case !o.Halt:
		// the documented refusals: a pending vote, or an Alphabet contract in legacy mode that needs the network around it
		// the pending-vote refusal is documented for a storage that says notary=true and holds ballots (here: the
		// recorded ones, which stay fresh on this young chain); with the ballots emptied nothing is pending
		hasBallots := false
		if si := root.L.GetStorageItem(dc.State.ID, []byte("ballots")); si != nil {
			if it, err := stackitem.Deserialize(si); err == nil {
				if l, ok := it.Value().([]stackitem.Item); ok && len(l) > 0 {
					hasBallots = true
				}
			}
		}
		if (flag == "notary=01" && hasBallots && !c.NoBallots) || (src == "alphabet" && flag == "notary=01") {
			out = "refused-documented"
		} else {
			vs = append(vs, Viol("supported-version-refused", fmt.Sprintf("%s (version %d, %s): %s", gc.Name, ver, flag, o.Fault), where))
		}
	default:
		out = "upgraded"
		got := read(after)
		for i := range plan {
			if !lenientEq(src, before[i], got[i]) {
				where["read"] = plan[i].m
				vs = append(vs, Viol("data-not-preserved", fmt.Sprintf("%s (version %d): %s(%v) answered %.200v before and %.200v after the upgrade", gc.Name, ver, plan[i].m, plan[i].args, before[i], got[i]), where))
				break
			}
		}
		if r := w.Read(after.L, after.H, after.TS, h, "version"); !Same(r.Ret0(), NI(cur)) {
			vs = append(vs, Viol("data-not-preserved", fmt.Sprintf("%s: version() = %v after the upgrade", gc.Name, r.Stack), where))
		}
	}
	return GridResult{Outcome: fmt.Sprintf("%s(reads=%d)", out, len(plan)), Key: gc.Name, Nontrivial: inWindow, V: vs}
}
