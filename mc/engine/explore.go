package engine

import (
	"fmt"
	"math/big"
	"os"
	"reflect"
	"sort"
	"strings"
	"sync"
	"time"
)

// Violation is one failed oracle clause.
type Violation struct {
	Class string         `json:"class"`
	Where map[string]any `json:"where"`
	Msg   string         `json:"msg"`
	Path  []string       `json:"path,omitempty"`
	Ops   []int          `json:"ops,omitempty"`
}

func (v *Violation) String() string {
	return fmt.Sprintf("%s %v: %s\n  path: %v", v.Class, v.Where, v.Msg, v.Path)
}

func Viol(class, msg string, where map[string]any) *Violation {
	return &Violation{Class: class, Where: where, Msg: msg}
}

// StepResult is what a driver returns for one operation applied to one state.
type StepResult struct {
	Next    *Node  // successor state (with its model); nil only together with V
	Outcome string // HALT, FAULT, HALT:false, ...
	Changed bool   // did contract storage change
	V       *Violation
	// Soft lists failed clauses that do not invalidate the successor state (a read path that
	// answers wrongly): they are reported like V, but the branch is explored further.
	Soft []*Violation
}

// Driver describes one property check over an operation alphabet.
type Driver interface {
	Build() *World
	Init(w *World) Model
	NumOps() int
	OpName(n *Node, op int) string
	// Enabled tells whether op is inside the property's quantifier in this state.
	Enabled(n *Node, op int) bool
	// Step executes op on top of n, checks every oracle clause and returns the successor.
	// n and n.M must not be modified.
	Step(x *Exec, n *Node, op int) StepResult
}

type pnode struct {
	path []uint16
	hash [32]byte
}

type Options struct {
	Property string
	Tier     string
	Seed     int64
	Depth    int
	Workers  int
	ConfCap  int           // number of explored paths replayed on the block executor
	Deadline time.Duration // internal deadline; the run stops at the last completed level
	Params   map[string]any
	TraceAll bool // record every transition (dual-world comparison)
}

type Stats struct {
	States, Transitions, Changed, NewChanged int
	Outcomes                                 map[string]int
	PerOpOK                                  map[string]int
	PerOpTried                               map[string]int
	CompletedDepth                           int
	Exhaustive                               bool // frontier ran empty: whole reachable space covered
	DeadlineHit                              bool
	Frontier                                 []int
	Violations                               []*Violation
	Known                                    map[string]int // finding id -> hits
	KnownExample                             map[string]*Violation
	Pruned                                   int
	Elapsed                                  time.Duration
	Samples                                  [][]string
	ConfValidated                            int
	confPaths                                [][]uint16
	ConfRefusals                             int               // refused operations appended to conformance paths
	Trace                                    map[string]string // path -> outcome and successor hash (TraceAll)
}

type succ struct {
	n       pnode
	changed bool
	outcome string
	opname  string
	viol    *Violation
	soft    []*Violation
	key     string
	reads   string // digest of the answers read back during the step (worlds with LogReads)
}

type worker struct {
	d Driver
	w *World
}

func keyOf(w *World, n *Node) [32]byte {
	var clock [12]byte
	h, ts := n.H-w.H, n.TS-w.TS
	for i := 0; i < 4; i++ {
		clock[i] = byte(h >> (8 * i))
	}
	for i := 0; i < 8; i++ {
		clock[4+i] = byte(ts >> (8 * i))
	}
	// the whole reference model is part of the key (DeepString), not only what a driver lists in Key():
	// two paths that reach the same storage with different model states must not be merged
	ms := []byte(DeepString(n.M))
	if ck, ok := n.M.(interface {
		ClockKey(dh uint32, dts uint64) []byte
	}); ok {
		return w.StateHash(n.L, n.M.Key(), ck.ClockKey(h, ts), ms)
	}
	return w.StateHash(n.L, n.M.Key(), clock[:], ms)
}

// DeepString renders any value structurally and deterministically: pointers are followed, map keys
// sorted, unexported fields included. A model may exclude itself from the key with a method
// `KeyOpaque()` (none does today).
func DeepString(v any) string {
	var b strings.Builder
	deepWrite(&b, reflect.ValueOf(v), 0)
	return b.String()
}

func deepWrite(b *strings.Builder, v reflect.Value, depth int) {
	if depth > 12 {
		b.WriteString("...")
		return
	}
	if !v.IsValid() {
		b.WriteString("nil")
		return
	}
	switch v.Kind() {
	case reflect.Ptr, reflect.Interface:
		if v.IsNil() {
			b.WriteString("nil")
			return
		}
		if v.Kind() == reflect.Ptr && v.Type() == reflect.TypeOf((*big.Int)(nil)) && v.CanInterface() {
			b.WriteString(v.Interface().(*big.Int).String())
			return
		}
		deepWrite(b, v.Elem(), depth+1)
	case reflect.Struct:
		if v.Type() == reflect.TypeOf(big.Int{}) {
			// sign and magnitude words
			fmt.Fprintf(b, "big{%v %v}", v.Field(0).Bool(), v.Field(1).Len())
			for i := 0; i < v.Field(1).Len(); i++ {
				fmt.Fprintf(b, " %x", v.Field(1).Index(i).Uint())
			}
			return
		}
		b.WriteString("{")
		for i := 0; i < v.NumField(); i++ {
			b.WriteString(v.Type().Field(i).Name)
			b.WriteString(":")
			deepWrite(b, v.Field(i), depth+1)
			b.WriteString(" ")
		}
		b.WriteString("}")
	case reflect.Map:
		keys := make([]string, 0, v.Len())
		vals := map[string]reflect.Value{}
		it := v.MapRange()
		for it.Next() {
			var kb strings.Builder
			deepWrite(&kb, it.Key(), depth+1)
			keys = append(keys, kb.String())
			vals[kb.String()] = it.Value()
		}
		sort.Strings(keys)
		b.WriteString("map[")
		for _, k := range keys {
			b.WriteString(k)
			b.WriteString("=")
			deepWrite(b, vals[k], depth+1)
			b.WriteString(" ")
		}
		b.WriteString("]")
	case reflect.Slice, reflect.Array:
		if v.Kind() == reflect.Slice && v.IsNil() {
			b.WriteString("[]")
			return
		}
		if v.Type().Elem().Kind() == reflect.Uint8 {
			b.WriteString("x")
			for i := 0; i < v.Len(); i++ {
				fmt.Fprintf(b, "%02x", v.Index(i).Uint())
			}
			return
		}
		b.WriteString("[")
		for i := 0; i < v.Len(); i++ {
			deepWrite(b, v.Index(i), depth+1)
			b.WriteString(" ")
		}
		b.WriteString("]")
	case reflect.String:
		fmt.Fprintf(b, "%q", v.String())
	case reflect.Bool:
		fmt.Fprintf(b, "%v", v.Bool())
	case reflect.Int, reflect.Int8, reflect.Int16, reflect.Int32, reflect.Int64:
		fmt.Fprintf(b, "%d", v.Int())
	case reflect.Uint, reflect.Uint8, reflect.Uint16, reflect.Uint32, reflect.Uint64, reflect.Uintptr:
		fmt.Fprintf(b, "%d", v.Uint())
	case reflect.Float32, reflect.Float64:
		fmt.Fprintf(b, "%g", v.Float())
	default:
		fmt.Fprintf(b, "<%s>", v.Kind())
	}
}

func rootNode(d Driver, w *World) *Node {
	return &Node{L: w.Root, H: w.H, TS: w.TS, M: d.Init(w)}
}

// Explore runs the level-synchronous BFS.
func Explore(mk func() Driver, o Options, kf *Findings) *Stats {
	st := &Stats{Outcomes: map[string]int{}, PerOpOK: map[string]int{}, PerOpTried: map[string]int{}, Known: map[string]int{}, KnownExample: map[string]*Violation{}}
	t0 := time.Now()
	if v := EnvInt("VERIF_DEADLINE_MIN", 0); v > 0 {
		// a shorter internal deadline for trial runs of a tier (the run still stops at the last completed level and says so)
		o.Deadline = time.Duration(v) * time.Minute
	}
	pool := make([]*worker, o.Workers)
	var wg sync.WaitGroup
	var perr any
	var pmu sync.Mutex
	guard := func(f func()) {
		defer func() {
			if r := recover(); r != nil {
				pmu.Lock()
				if perr == nil {
					perr = r
				}
				pmu.Unlock()
			}
		}()
		f()
	}
	for i := range pool {
		wg.Add(1)
		go func(i int) {
			defer wg.Done()
			guard(func() {
				d := mk()
				pool[i] = &worker{d: d, w: d.Build()}
				pool[i].w.LogReads = o.TraceAll
			})
		}(i)
	}
	wg.Wait()
	if perr != nil {
		panic(perr)
	}
	defer func() {
		for _, p := range pool {
			if p != nil {
				p.w.Close()
			}
		}
	}()
	root := pnode{}
	root.hash = keyOf(pool[0].w, rootNode(pool[0].d, pool[0].w))
	for _, p := range pool[1:] {
		if keyOf(p.w, rootNode(p.d, p.w)) != root.hash {
			hpanic("worlds are not identical: root state hash differs between workers")
		}
	}
	visited := map[[32]byte]struct{}{root.hash: {}}
	st.States = 1
	frontier := []pnode{root}
	perLevel := 1
	if o.Depth > 0 {
		perLevel = o.ConfCap/o.Depth + 1
	}
	var longest []uint16
	for dpt := 1; dpt <= o.Depth; dpt++ {
		if len(frontier) == 0 {
			st.Exhaustive = true
			break
		}
		if o.Deadline > 0 && time.Since(t0) > o.Deadline {
			st.DeadlineHit = true
			break
		}
		st.Frontier = append(st.Frontier, len(frontier))
		out := make([][]succ, len(frontier))
		var idx int
		var mu sync.Mutex
		for i := range pool {
			wg.Add(1)
			go func(p *worker) {
				defer wg.Done()
				guard(func() {
					for {
						mu.Lock()
						j := idx
						idx++
						mu.Unlock()
						if j >= len(frontier) {
							return
						}
						out[j] = expand(p.d, p.w, frontier[j])
					}
				})
			}(pool[i])
		}
		wg.Wait()
		if perr != nil {
			panic(perr)
		}
		var next []pnode
		unknown := false
		for j := range out {
			for _, s := range out[j] {
				st.Transitions++
				st.Outcomes[s.outcome]++
				if o.TraceAll {
					if st.Trace == nil {
						st.Trace = map[string]string{}
					}
					st.Trace[s.key] = fmt.Sprintf("%s %x reads:%s %s", s.outcome, s.n.hash[:8], s.reads, s.opname)
				}
				st.PerOpTried[s.opname]++
				if s.changed {
					st.Changed++
				}
				if len(s.outcome) >= 4 && s.outcome[:4] == "HALT" && s.outcome != "HALT:false" && s.outcome != "HALT:noop" {
					st.PerOpOK[s.opname]++
				}
				for _, sv := range s.soft {
					if f := kf.Match(o.Property, sv); f != nil {
						st.Known[f.ID]++
						if st.KnownExample[f.ID] == nil {
							st.KnownExample[f.ID] = sv
							st.confPaths = append(st.confPaths, toU16(sv.Ops))
						}
						continue
					}
					unknown = true
					if len(st.Violations) < 20 {
						st.Violations = append(st.Violations, sv)
					}
				}
				if s.viol != nil {
					if f := kf.Match(o.Property, s.viol); f != nil {
						st.Known[f.ID]++
						if st.KnownExample[f.ID] == nil {
							st.KnownExample[f.ID] = s.viol
							st.confPaths = append(st.confPaths, toU16(s.viol.Ops))
						}
						st.Pruned++
						st.Outcomes["violation"]--
						if st.Outcomes["violation"] == 0 {
							delete(st.Outcomes, "violation")
						}
						st.Outcomes["known_finding"]++
						continue
					}
					unknown = true
					if len(st.Violations) < 20 {
						st.Violations = append(st.Violations, s.viol)
					}
					continue
				}
				if _, ok := visited[s.n.hash]; !ok {
					visited[s.n.hash] = struct{}{}
					next = append(next, s.n)
					if s.changed {
						st.NewChanged++
					}
				}
			}
		}
		sort.Slice(next, func(a, b int) bool { return lessPath(next[a].path, next[b].path) })
		st.States += len(next)
		st.CompletedDepth = dpt
		// conformance candidates: an even stride over this level, rotated by the seed
		if len(next) > 0 {
			stride := len(next)/perLevel + 1
			off := 0
			if stride > 1 {
				off = int(uint64(o.Seed) % uint64(stride))
			}
			for k := off; k < len(next); k += stride {
				st.confPaths = append(st.confPaths, next[k].path)
			}
			longest = next[len(next)-1].path
		}
		frontier = next
		if unknown {
			break
		}
		if dpt == o.Depth && len(frontier) == 0 {
			st.Exhaustive = true
		}
	}
	// samples: three explored paths written out by name, one of them of maximal length
	sp := [][]uint16{}
	if longest != nil {
		sp = append(sp, longest)
	}
	for _, k := range []int{0, len(st.confPaths) / 2} {
		if k < len(st.confPaths) {
			sp = append(sp, st.confPaths[k])
		}
	}
	for _, p := range sp {
		st.Samples = append(st.Samples, pathNames(pool[0].d, pool[0].w, p))
	}
	st.Elapsed = time.Since(t0)
	return st
}

func toU16(a []int) []uint16 {
	r := make([]uint16, len(a))
	for i, v := range a {
		r[i] = uint16(v)
	}
	return r
}

func lessPath(a, b []uint16) bool {
	for i := 0; i < len(a) && i < len(b); i++ {
		if a[i] != b[i] {
			return a[i] < b[i]
		}
	}
	return len(a) < len(b)
}

// replay re-creates the state reached by path (violations inside a prefix are harness errors).
func replay(d Driver, w *World, x *Exec, path []uint16) (*Node, []string) {
	n := rootNode(d, w)
	var names []string
	for _, op := range path {
		names = append(names, d.OpName(n, int(op)))
		if !d.Enabled(n, int(op)) {
			hpanic("replay: operation %v not enabled", names)
		}
		r := d.Step(x, &Node{L: n.L, H: n.H, TS: n.TS, M: n.M.Clone()}, int(op))
		if r.V != nil {
			hpanic("violation while replaying a prefix: %s", r.V.String())
		}
		n = r.Next
	}
	return n, names
}

func pathNames(d Driver, w *World, path []uint16) []string {
	n := rootNode(d, w)
	var names []string
	x := &Exec{W: w}
	for _, op := range path {
		names = append(names, d.OpName(n, int(op)))
		r := d.Step(x, &Node{L: n.L, H: n.H, TS: n.TS, M: n.M.Clone()}, int(op))
		if r.V != nil {
			break
		}
		n = r.Next
	}
	return names
}

func expand(d Driver, w *World, pn pnode) []succ {
	x := &Exec{W: w}
	n, names := replay(d, w, x, pn.path)
	if h := keyOf(w, n); h != pn.hash {
		hpanic("replay divergence at %v", names)
	}
	var out []succ
	for op := 0; op < d.NumOps(); op++ {
		if !d.Enabled(n, op) {
			continue
		}
		opn := d.OpName(n, op)
		w.TakeReads()
		r := d.Step(x, &Node{L: n.L, H: n.H, TS: n.TS, M: n.M.Clone()}, op)
		s := succ{changed: r.Changed, outcome: r.Outcome, opname: opn, reads: w.TakeReads(), key: fmt.Sprint(append(append([]uint16{}, pn.path...), uint16(op)))}
		for _, sv := range r.Soft {
			sv.Path = append(append([]string{}, names...), opn)
			for _, p := range pn.path {
				sv.Ops = append(sv.Ops, int(p))
			}
			sv.Ops = append(sv.Ops, op)
			s.soft = append(s.soft, sv)
		}
		if r.V != nil {
			r.V.Path = append(append([]string{}, names...), opn)
			for _, p := range pn.path {
				r.V.Ops = append(r.V.Ops, int(p))
			}
			r.V.Ops = append(r.V.Ops, op)
			s.viol = r.V
			s.outcome = "violation"
		} else {
			s.n = pnode{path: append(append([]uint16{}, pn.path...), uint16(op)), hash: keyOf(w, r.Next)}
		}
		out = append(out, s)
	}
	return out
}

// ReplayOps re-executes an operation list on a fresh world without the explorer and returns
// the violation it ends in (nil if none). Used by `mc replay` and by the 5x reproduction.
func ReplayOps(mk func() Driver, ops []int) (*Violation, []string) {
	d := mk()
	w := d.Build()
	defer w.Close()
	n := rootNode(d, w)
	x := &Exec{W: w}
	var names []string
	for i, op := range ops {
		if op >= d.NumOps() || !d.Enabled(n, op) {
			hpanic("replay: operation %d (index %d) does not exist or is not enabled", op, i)
		}
		names = append(names, d.OpName(n, op))
		r := d.Step(x, &Node{L: n.L, H: n.H, TS: n.TS, M: n.M.Clone()}, op)
		if r.V != nil {
			r.V.Path = names
			r.V.Ops = ops[:i+1]
			return r.V, names
		}
		if i == len(ops)-1 && len(r.Soft) > 0 {
			r.Soft[0].Path = names
			r.Soft[0].Ops = ops
			return r.Soft[0], names
		}
		n = r.Next
	}
	return nil, names
}

// Conformance replays the selected explored paths on the block executor. Paths that end in
// a (known) violation are replayed up to and including the violating call.
func Conformance(mk func() Driver, st *Stats, o Options) {
	// violating paths first: the cap below must never cut them
	var paths [][]uint16
	for _, v := range st.Violations {
		paths = append(paths, toU16(v.Ops))
	}
	keep := st.confPaths
	if len(keep) > o.ConfCap+len(st.KnownExample) {
		keep = keep[:o.ConfCap]
	}
	paths = append(paths, keep...)
	var wg sync.WaitGroup
	var mu sync.Mutex
	var idx, ok int
	var firstErr any
	for i := 0; i < o.Workers; i++ {
		wg.Add(1)
		go func() {
			defer wg.Done()
			defer func() {
				if r := recover(); r != nil {
					mu.Lock()
					if firstErr == nil {
						firstErr = r
					}
					mu.Unlock()
				}
			}()
			for {
				mu.Lock()
				j := idx
				idx++
				mu.Unlock()
				if j >= len(paths) {
					return
				}
				if len(paths[j]) == 0 {
					continue
				}
				d := mk()
				w := d.Build()
				x := &Exec{W: w, Record: true}
				n := rootNode(d, w)
				var names []string
				refused := 0
				for _, op := range paths[j] {
					names = append(names, d.OpName(n, int(op)))
					r := d.Step(x, &Node{L: n.L, H: n.H, TS: n.TS, M: n.M.Clone()}, int(op))
					if r.V != nil {
						n = nil // trace up to the violating call has been recorded; nothing is appended after it
						break
					}
					n = r.Next
				}
				// refusals never lead to a new state and so never lie on a representative path: append, at the
				// end state, a rotating sample of the operations that are refused there (they chain linearly,
				// a refusal changes nothing), so that faults, `false` results and their atomicity are also
				// compared with real signed blocks
				if clean(n) {
					tried := 0
					here := keyOf(w, n)
					for k := 0; k < d.NumOps() && tried < refusalsPerPath; k++ {
						op := (k*7 + j*13 + int(o.Seed)) % d.NumOps()
						if !d.Enabled(n, op) {
							continue
						}
						mark := len(x.Trace)
						r := d.Step(x, &Node{L: n.L, H: n.H, TS: n.TS, M: n.M.Clone()}, op)
						if r.V == nil && len(r.Soft) == 0 && r.Next != nil && len(x.Trace) == mark+1 && keyOf(w, r.Next) == here && w.signable(x.Trace[mark].Call.Signers) {
							names = append(names, d.OpName(n, op)+" (refused)")
							tried++
							refused++
							continue
						}
						// not a refusal: leave it out of the linear trace
						x.Trace = x.Trace[:mark]
						for k := range x.Dumps {
							if k >= mark {
								delete(x.Dumps, k)
							}
						}
					}
				}
				msg := w.ReplayOnBlocks(x.Trace, x.Dumps)
				w.Close()
				if msg != "" {
					hpanic("executors disagree on path %v: %s", names, msg)
				}
				mu.Lock()
				ok++
				st.ConfRefusals += refused
				mu.Unlock()
			}
		}()
	}
	wg.Wait()
	if firstErr != nil {
		panic(firstErr)
	}
	st.ConfValidated = ok
}

// refusalsPerPath bounds the refused operations appended to one conformance path.
const refusalsPerPath = 6

func clean(n *Node) bool { return n != nil && n.L != nil }

// Tier helpers

func EnvInt(name string, def int) int {
	if v := os.Getenv(name); v != "" {
		var i int
		if _, err := fmt.Sscan(v, &i); err == nil {
			return i
		}
	}
	return def
}
