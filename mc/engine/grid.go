package engine

import (
	"fmt"
	"sort"
	"sync"
	"time"
)

// Grid checks: exhaustive enumeration of a finite case space, every case executed from a
// prepared base state on the real bytecode (forking the base layer is free).

type GridCase struct {
	Name string
	Data any
}

type GridResult struct {
	Outcome    string // outcome class for the histogram
	Key        string // distinctness key (defaults to Name)
	Nontrivial bool   // by the driver's stated rule
	V          []*Violation
	Digest     string // optional: digest of the state the case ended in (used by the C15 differential)
}

// GridDriver enumerates and evaluates the cases of one grid.
type GridDriver interface {
	Name() string
	Build() *World // base state (frozen)
	Cases(tier string) []GridCase
	// Eval runs one case from the base state. It must leave no trace in w.
	Eval(x *Exec, root *Node, c GridCase) GridResult
	Rule() string
}

type GridStats struct {
	Evaluations int
	Distinct    map[string]struct{}
	Outcomes    map[string]int
	Violations  []*Violation
	ViolCases   map[*Violation]GridCase
	Known       map[string]int
	KnownEx     map[string]*Violation
	Samples     []any
	Conf        int
	Elapsed     time.Duration
	Exhaustive  bool
	Parts       map[string]any
	ViolHist    map[string]int
}

func newGridStats() *GridStats {
	return &GridStats{Distinct: map[string]struct{}{}, Outcomes: map[string]int{}, ViolCases: map[*Violation]GridCase{}, Known: map[string]int{}, KnownEx: map[string]*Violation{}, Parts: map[string]any{}, Exhaustive: true, ViolHist: map[string]int{}}
}

type emptyModel struct{}

func (emptyModel) Clone() Model { return emptyModel{} }
func (emptyModel) Key() []byte  { return nil }

func gridRoot(w *World) *Node { return &Node{L: w.Root, H: w.H, TS: w.TS, M: emptyModel{}} }

// RunGrid evaluates every case on Workers() worlds and replays confCap of them (evenly
// strided, rotated by the seed, plus every violating one) on the block executor.
func RunGrid(mk func() GridDriver, prop, tier string, seed int64, confCap int, kf *Findings, gs *GridStats) {
	t0 := time.Now()
	nw := Workers()
	d0 := mk()
	cases := d0.Cases(tier)
	if len(cases) < nw {
		nw = len(cases)
	}
	if nw < 1 {
		nw = 1
	}
	type res struct {
		r GridResult
	}
	out := make([]GridResult, len(cases))
	var wg sync.WaitGroup
	var mu sync.Mutex
	var perr any
	idx := 0
	for i := 0; i < nw; i++ {
		wg.Add(1)
		go func() {
			defer wg.Done()
			defer func() {
				if r := recover(); r != nil {
					mu.Lock()
					if perr == nil {
						perr = r
					}
					mu.Unlock()
				}
			}()
			d := mk()
			w := d.Build()
			defer w.Close()
			x := &Exec{W: w}
			for {
				mu.Lock()
				j := idx
				idx++
				mu.Unlock()
				if j >= len(cases) {
					return
				}
				out[j] = d.Eval(x, gridRoot(w), cases[j])
			}
		}()
	}
	wg.Wait()
	if perr != nil {
		panic(perr)
	}
	var confIdx []int
	stride := len(cases)/(confCap+1) + 1
	off := int(uint64(seed) % uint64(stride))
	for j := range cases {
		r := out[j]
		gs.Evaluations++
		gs.Outcomes[d0.Name()+":"+r.Outcome]++
		if r.Nontrivial {
			k := r.Key
			if k == "" {
				k = cases[j].Name
			}
			gs.Distinct[d0.Name()+"/"+k] = struct{}{}
		}
		for _, v := range r.V {
			if v.Path == nil {
				v.Path = []string{cases[j].Name}
			}
			if f := kf.Match(prop, v); f != nil {
				gs.Known[f.ID]++
				if gs.KnownEx[f.ID] == nil {
					gs.KnownEx[f.ID] = v
				}
				continue
			}
			hk := v.Class + " " + fmt.Sprint(v.Where)
			gs.ViolHist[hk]++
			if gs.ViolHist[hk] <= 2 && len(gs.Violations) < 40 {
				gs.Violations = append(gs.Violations, v)
				gs.ViolCases[v] = cases[j]
				confIdx = append(confIdx, j)
			}
		}
		if j%stride == off && len(confIdx) < confCap+20 {
			confIdx = append(confIdx, j)
		}
	}
	for _, j := range []int{0, len(cases) / 2, len(cases) - 1} {
		if j >= 0 && j < len(cases) && len(gs.Samples) < 9 {
			gs.Samples = append(gs.Samples, map[string]any{"grid": d0.Name(), "case": cases[j].Name, "outcome": out[j].Outcome})
		}
	}
	// conformance: the same case, recorded, then replayed as real signed blocks
	idx = 0
	var ok int
	for i := 0; i < nw; i++ {
		wg.Add(1)
		go func() {
			defer wg.Done()
			defer func() {
				if r := recover(); r != nil {
					mu.Lock()
					if perr == nil {
						perr = r
					}
					mu.Unlock()
				}
			}()
			for {
				mu.Lock()
				k := idx
				idx++
				mu.Unlock()
				if k >= len(confIdx) {
					return
				}
				d := mk()
				w := d.Build()
				x := &Exec{W: w, Record: true}
				d.Eval(x, gridRoot(w), cases[confIdx[k]])
				// a grid case forks the base state several times; only a linear trace can be
				// replayed on a chain, so the recorded calls are replayed one per fresh fork
				// point: drivers mark fork points by recording nothing for throw-away calls.
				msg := w.ReplayOnBlocks(x.Trace, x.Dumps)
				w.Close()
				if msg != "" {
					hpanic("executors disagree on grid case %s: %s", cases[confIdx[k]].Name, msg)
				}
				mu.Lock()
				ok++
				mu.Unlock()
			}
		}()
	}
	wg.Wait()
	if perr != nil {
		panic(perr)
	}
	gs.Conf += ok
	pm := map[string]any{"cases": len(cases), "rule": d0.Rule(), "conformance": ok}
	if ex, isEx := d0.(interface{ Extra() map[string]any }); isEx {
		for k, v := range ex.Extra() {
			pm[k] = v
		}
	}
	gs.Parts[d0.Name()] = pm
	gs.Elapsed += time.Since(t0)
}

// FinishGrid writes evidence and prints the verdict lines for a pure grid check or for a
// BFS+grid check (st may be nil).
func FinishGrid(prop, driver, tier string, seed int64, gs *GridStats, st *Stats, extraAssume []string) int {
	if gs.Evaluations > 0 && len(gs.Violations) == 0 {
		if len(gs.Outcomes) < 2 {
			hpanic("VACUOUS: a single outcome %v over %d grid cases", gs.Outcomes, gs.Evaluations)
		}
	}
	rules := []string{}
	for k, p := range gs.Parts {
		rules = append(rules, fmt.Sprintf("%s: %v", k, p.(map[string]any)["rule"]))
	}
	sort.Strings(rules)
	cov := map[string]any{
		"evaluations":                   gs.Evaluations,
		"distinct_nontrivial":           len(gs.Distinct),
		"rule":                          "exhaustive enumeration of the finite grids below, every case executed on the real bytecode from a prepared base state; " + fmt.Sprint(rules),
		"samples":                       gs.Samples,
		"exhaustive":                    gs.Exhaustive,
		"outcomes":                      gs.Outcomes,
		"grids":                         gs.Parts,
		"traces_validated_against_impl": gs.Conf,
		"known_findings_seen":           gs.Known,
		"repo":                          Repo,
	}
	wall := gs.Elapsed.Seconds()
	nviol := len(gs.Violations)
	if st != nil {
		cov["states"] = st.States
		cov["transitions"] = st.Transitions
		cov["traces_validated_against_impl"] = gs.Conf + st.ConfValidated
		cov["completed_depth"] = st.CompletedDepth
		cov["bfs_exhaustive"] = st.Exhaustive
		cov["grid_exhaustive"] = gs.Exhaustive
		cov["exhaustive"] = gs.Exhaustive && st.Exhaustive // the BFS part is depth-bounded unless its frontier ran empty
		cov["bfs_outcomes"] = st.Outcomes
		cov["frontier_sizes"] = st.Frontier
		cov["evaluations"] = gs.Evaluations + st.Transitions
		cov["distinct_nontrivial"] = len(gs.Distinct) + st.NewChanged
		ss := []any{}
		for _, s := range st.Samples {
			ss = append(ss, s)
		}
		cov["samples"] = append(ss, gs.Samples...)
		wall += st.Elapsed.Seconds()
		for k, v := range st.Known {
			gs.Known[k] += v
			if gs.KnownEx[k] == nil {
				gs.KnownEx[k] = st.KnownExample[k]
			}
		}
	} else {
		// the state/transition keys of the model-checking level: one base state per grid and
		// one transition per evaluated case
		cov["states"] = len(gs.Parts) + len(gs.Distinct)
		cov["transitions"] = gs.Evaluations
	}
	ev := &Evidence{PropertyID: prop, Tier: tier, Seed: seed, Level: "model_checking", Coverage: cov,
		Assumptions: append(append([]string{}, BaseAssumptions...), extraAssume...), WallS: wall, Violations: nviol}
	WriteEvidence(ev)
	fmt.Printf("%s %s: grid evaluations=%d distinct_nontrivial=%d outcomes=%v conformance=%d wall=%.1fs\n", prop, tier, gs.Evaluations, len(gs.Distinct), gs.Outcomes, gs.Conf, wall)
	ids := make([]string, 0, len(gs.Known))
	for id := range gs.Known {
		ids = append(ids, id)
	}
	sort.Strings(ids)
	for _, id := range ids {
		for _, f := range LoadFindings().List {
			if f.ID == id && f.Property == prop {
				fmt.Printf("KNOWN-FINDING: property=%s %s [%s; %d hits; e.g. %v]\n", prop, f.What, id, gs.Known[id], gs.KnownEx[id].Path)
			}
		}
	}
	if nviol == 0 {
		return 0
	}
	fmt.Printf("  violation histogram: %v\n", gs.ViolHist)
	seen := map[string]bool{}
	for _, v := range gs.Violations {
		key := v.Class + fmt.Sprint(v.Where)
		if seen[key] {
			continue
		}
		seen[key] = true
		c := gs.ViolCases[v]
		p := WriteReplay(prop, driver, map[string]any{"tier": tier, "case": c.Name}, v, c.Name)
		fmt.Printf("  %s\n", v.String())
		fmt.Printf("VIOLATION property=%s replay=%s\n", prop, p)
	}
	return 1
}

// ReplayGridCase re-evaluates one named case of a grid on a fresh world.
func ReplayGridCase(mk func() GridDriver, tier, name string) []*Violation {
	d := mk()
	for _, t := range []string{tier, "thorough", "quick"} {
		for _, c := range d.Cases(t) {
			if c.Name == name {
				w := d.Build()
				defer w.Close()
				r := d.Eval(&Exec{W: w}, gridRoot(w), c)
				return r.V
			}
		}
	}
	hpanic("replay: grid %s has no case %q", d.Name(), name)
	return nil
}

// gridCheck registers a property decided by one or more grids.
func gridCheck(prop string, mks []func() GridDriver, confQ, confT int, extraAssume []string) {
	Registry[prop] = &Check{
		Run: func(tier string, seed int64) int {
			kf := LoadFindings()
			gs := newGridStats()
			conf := confQ
			if tier == "thorough" {
				conf = confT
			}
			for _, mk := range mks {
				RunGrid(mk, prop, tier, seed, conf, kf, gs)
			}
			return FinishGrid(prop, "grid", tier, seed, gs, nil, extraAssume)
		},
		Replay: func(rf *ReplayFile) int { return replayGrid(rf, mks) },
	}
}

func replayGrid(rf *ReplayFile, mks []func() GridDriver) int {
	name, _ := rf.Params["case"].(string)
	tier, _ := rf.Params["tier"].(string)
	for _, mk := range mks {
		found := false
		d := mk()
		for _, t := range []string{"quick", "thorough"} {
			for _, c := range d.Cases(t) {
				if c.Name == name {
					found = true
				}
			}
		}
		if !found {
			continue
		}
		vs := ReplayGridCase(mk, tier, name)
		for _, v := range vs {
			if v.Class == rf.Class {
				fmt.Printf("replay of %s case %q: %s\n", rf.Property, name, v.String())
				fmt.Printf("VIOLATION property=%s replay=%s\n", rf.Property, "(replayed)")
				return 1
			}
		}
		fmt.Printf("replay of %s case %q: no %s violation on this tree\n", rf.Property, name, rf.Class)
		return 0
	}
	hpanic("replay: no grid has case %q", name)
	return 2
}
