package engine

import (
	"crypto/sha256"
	"encoding/hex"
	"fmt"
	"math/big"
	"sort"
	"strings"

	"github.com/nspcc-dev/neo-go/pkg/core/block"
	"github.com/nspcc-dev/neo-go/pkg/core/dao"
	"github.com/nspcc-dev/neo-go/pkg/core/interop/iterator"
	"github.com/nspcc-dev/neo-go/pkg/core/state"
	"github.com/nspcc-dev/neo-go/pkg/core/transaction"
	"github.com/nspcc-dev/neo-go/pkg/io"
	"github.com/nspcc-dev/neo-go/pkg/smartcontract/callflag"
	"github.com/nspcc-dev/neo-go/pkg/smartcontract/trigger"
	"github.com/nspcc-dev/neo-go/pkg/util"
	"github.com/nspcc-dev/neo-go/pkg/vm/emit"
	"github.com/nspcc-dev/neo-go/pkg/vm/stackitem"
	"github.com/nspcc-dev/neo-go/pkg/vm/vmstate"
)

// Call is one operation as data: what both executors run.
type Call struct {
	Script  []byte
	Signers []util.Uint160 // every one with scope Global; the fee payer (scope None) is always prepended
	// Adv > 0 starts a new block Adv blocks after the current one, AdvMs later (at least
	// Adv ms); Adv == 0 places the transaction in the same block as the previous one.
	Adv   uint32
	AdvMs uint64
	Label string
}

type Notif struct {
	Contract string
	Name     string
	Args     []any
}

func (n Notif) String() string { return fmt.Sprintf("%s.%s%v", n.Contract, n.Name, n.Args) }

// Obs is the observation record of one executed call.
type Obs struct {
	Halt   bool
	Fault  string
	Stack  []any
	Notifs []Notif
	Layer  *dao.Simple // successor layer on HALT (nil on FAULT); layered executor only
	iter   []bool      // which stack items are iterators (a chain's execution log cannot expand them)
}

func (o *Obs) Digest() string {
	var sb strings.Builder
	st := make([]any, len(o.Stack))
	for i, v := range o.Stack {
		st[i] = v
		if (i < len(o.iter) && o.iter[i]) || v == "?*stackitem.Interop" {
			st[i] = "ITERATOR"
		}
	}
	fmt.Fprintf(&sb, "halt=%v fault=%q stack=%v notifs=[", o.Halt, faultCore(o.Fault), st)
	for _, n := range o.Notifs {
		sb.WriteString(n.String())
		sb.WriteString(";")
	}
	sb.WriteString("]")
	return sb.String()
}

// faultCore strips nothing today: both executors take the message from vm.Run().
func faultCore(s string) string { return s }

// Ret0 returns the single returned value ("" if there is none).
func (o *Obs) Ret0() any {
	if !o.Halt || len(o.Stack) != 1 {
		return nil
	}
	return o.Stack[0]
}

func Script(h util.Uint160, method string, args ...any) []byte {
	bw := io.NewBufBinWriter()
	emit.AppCall(bw.BinWriter, h, method, callflag.All, args...)
	if bw.Err != nil {
		hpanic("emit %s: %v", method, bw.Err)
	}
	return bw.Bytes()
}

func (w *World) mkTx(scr []byte, signers []util.Uint160) *transaction.Transaction {
	tx := transaction.New(scr, 0)
	tx.Signers = []transaction.Signer{{Account: w.Payer.Hash, Scopes: transaction.None}}
	seen := map[util.Uint160]bool{w.Payer.Hash: true}
	for _, s := range signers {
		if seen[s] {
			continue
		}
		seen[s] = true
		tx.Signers = append(tx.Signers, transaction.Signer{Account: s, Scopes: transaction.Global})
	}
	return tx
}

// Run executes one script on top of parent exactly as Blockchain.storeBlock executes a
// transaction: fresh interop context over a private layer, block header chosen by the caller.
func (w *World) Run(parent *dao.Simple, height uint32, ts uint64, scr []byte, signers ...util.Uint160) Obs {
	tx := w.mkTx(scr, signers)
	tx.Scripts = make([]transaction.Witness, len(tx.Signers))
	b := &block.Block{Header: block.Header{Index: height, Timestamp: ts}}
	ic, err := w.BC.GetTestVM(trigger.Application, tx, b)
	if err != nil {
		panic(err)
	}
	defer ic.Finalize()
	ic.DAO = parent.GetPrivate()
	ic.VM.LoadWithFlags(scr, callflag.All)
	err = ic.VM.Run()
	o := Obs{}
	if err != nil {
		o.Fault = err.Error()
		return o
	}
	o.Halt = true
	o.Layer = ic.DAO
	for _, it := range ic.VM.Estack().ToArray() {
		o.Stack = append(o.Stack, Norm(it))
		_, isI := it.(*stackitem.Interop)
		o.iter = append(o.iter, isI)
	}
	o.Notifs = maskTxHash(w.normNotifs(ic.Notifications), tx.Hash())
	return o
}

// maskTxHash replaces the carrier transaction's hash (NeoFS Deposit/Withdraw notifications
// carry it) by a constant: the two executors necessarily build different transactions.
func maskTxHash(ns []Notif, h util.Uint256) []Notif {
	le, be := "x"+hex.EncodeToString(h.BytesLE()), "x"+hex.EncodeToString(h.BytesBE())
	for i := range ns {
		for j, a := range ns[i].Args {
			if s, ok := a.(string); ok && (s == le || s == be) {
				ns[i].Args[j] = "xTXHASH"
			}
		}
	}
	return ns
}

func (w *World) normNotifs(evs []state.NotificationEvent) []Notif {
	var out []Notif
	for _, n := range evs {
		nn := Notif{Contract: w.NameOf(n.ScriptHash), Name: n.Name}
		for _, a := range n.Item.Value().([]stackitem.Item) {
			nn.Args = append(nn.Args, Norm(a))
		}
		out = append(out, nn)
	}
	return out
}

// Read calls a (safe) method on top of layer without keeping any effect.
func (w *World) Read(layer *dao.Simple, h uint32, ts uint64, c util.Uint160, method string, args ...any) Obs {
	o := w.Run(layer, h, ts, Script(c, method, args...))
	o.Layer = nil
	if w.LogReads {
		// a running digest of every answer a driver reads back (the dual-world comparison of C15 compares it per
		// transition: a difference that sits in a read path leaves no trace in storage). Where a fault is raised is
		// not behaviour, so a fault is recorded as such only
		if w.readSum == nil {
			w.readSum = sha256.New()
		}
		if o.Halt {
			fmt.Fprintf(w.readSum, "%s%v=%v;", method, args, o.Stack)
		} else {
			fmt.Fprintf(w.readSum, "%s%v=FAULT;", method, args)
		}
	}
	return o
}

// TakeReads returns the digest of the answers read since the last call and starts a new one.
func (w *World) TakeReads() string {
	if w.readSum == nil {
		return ""
	}
	d := fmt.Sprintf("%x", w.readSum.Sum(nil)[:6])
	w.readSum = nil
	return d
}

// Norm normalises a stack item: bytes -> "x<hex>", integers/bools -> "i<dec>", arrays and
// structs -> []any, iterators are expanded, maps -> ["map", [k,v]...].
func Norm(it stackitem.Item) any {
	switch v := it.(type) {
	case stackitem.Null:
		return nil
	case *stackitem.BigInteger:
		return "i" + v.Big().String()
	case stackitem.Bool:
		if bool(v) {
			return "i1"
		}
		return "i0"
	case *stackitem.ByteArray, *stackitem.Buffer:
		b, _ := it.TryBytes()
		return "x" + hex.EncodeToString(b)
	case *stackitem.Array, *stackitem.Struct:
		out := []any{}
		for _, e := range it.Value().([]stackitem.Item) {
			out = append(out, Norm(e))
		}
		return out
	case *stackitem.Interop:
		if iterator.IsIterator(it) {
			vals, trunc := iterator.ValuesTruncated(it, 4096)
			out := []any{}
			for _, e := range vals {
				out = append(out, Norm(e))
			}
			if trunc {
				out = append(out, "TRUNCATED")
			}
			return out
		}
		return fmt.Sprintf("?%T", it)
	case *stackitem.Map:
		out := []any{"map"}
		for _, e := range v.Value().([]stackitem.MapElement) {
			out = append(out, []any{Norm(e.Key), Norm(e.Value)})
		}
		return out
	default:
		return fmt.Sprintf("?%T", it)
	}
}

// helpers to build/compare normalised values

func NX(b []byte) any {
	if b == nil {
		return nil
	}
	return "x" + hex.EncodeToString(b)
}
func NXs(s string) any           { return "x" + hex.EncodeToString([]byte(s)) }
func NI(i int64) any             { return "i" + fmt.Sprint(i) }
func NB(b *big.Int) any          { return "i" + b.String() }
func Hx(b []byte) string         { return hex.EncodeToString(b) }
func Same(a, b any) bool         { return fmt.Sprint(a) == fmt.Sprint(b) }
func U160(b []byte) util.Uint160 { u, _ := util.Uint160DecodeBytesBE(b); return u }

// AsBytes decodes "x.." (or "i.." as VM integer bytes); ok=false otherwise.
func AsBytes(v any) ([]byte, bool) {
	s, ok := v.(string)
	if !ok || len(s) == 0 {
		return nil, false
	}
	switch s[0] {
	case 'x':
		b, err := hex.DecodeString(s[1:])
		return b, err == nil
	case 'i':
		n, ok := new(big.Int).SetString(s[1:], 10)
		if !ok {
			return nil, false
		}
		bs, _ := stackitem.NewBigInteger(n).TryBytes()
		return bs, true
	}
	return nil, false
}

// AsInt decodes "i.." or "x.." (little-endian VM integer).
func AsInt(v any) (*big.Int, bool) {
	s, ok := v.(string)
	if !ok || len(s) == 0 {
		return nil, false
	}
	switch s[0] {
	case 'i':
		return new(big.Int).SetString(s[1:], 10)
	case 'x':
		b, err := hex.DecodeString(s[1:])
		if err != nil {
			return nil, false
		}
		n, err := stackitem.NewByteArray(b).TryInteger()
		return n, err == nil
	}
	return nil, false
}

// ---------- Node: one explored state, and the recording execution context ----------

type Model interface {
	Clone() Model
	Key() []byte // what the canonical state needs beyond storage
}

type Node struct {
	L  *dao.Simple
	H  uint32 // block the next same-block call goes into
	TS uint64
	M  Model
}

type TraceEntry struct {
	Call Call
	H    uint32
	TS   uint64
	Obs  string // digest of the layered observation
}

// Exec is handed to Driver.Step; it runs calls on the layered executor and (when
// recording) remembers them for the conformance replay on real blocks.
type Exec struct {
	W      *World
	Record bool
	Trace  []TraceEntry
	Dumps  map[int]map[string]string // index into Trace -> storage after that call (recorded at block ends)
}

// Do applies c on top of n and returns the observation and the position (layer, height,
// time) after it. The model is not touched.
func (x *Exec) Do(n *Node, c Call) (Obs, *Node) {
	h, ts := n.H, n.TS
	if c.Adv > 0 {
		h += c.Adv
		d := c.AdvMs
		if d < uint64(c.Adv) {
			d = uint64(c.Adv)
		}
		ts += d
	}
	o := x.W.Run(n.L, h, ts, c.Script, c.Signers...)
	nn := &Node{L: n.L, H: h, TS: ts, M: n.M}
	if o.Halt {
		nn.L = o.Layer
	}
	if x.Record {
		x.Trace = append(x.Trace, TraceEntry{Call: c, H: h, TS: ts, Obs: o.Digest()})
		if x.Dumps == nil {
			x.Dumps = map[int]map[string]string{}
		}
		x.Dumps[len(x.Trace)-1] = x.W.FullDump(nn.L)
	}
	return o, nn
}

// Q runs a read-only call at the node's position.
func (x *Exec) Q(n *Node, c util.Uint160, method string, args ...any) Obs {
	return x.W.Read(n.L, n.H, n.TS, c, method, args...)
}

// signable reports whether every signer has key material, i.e. can witness a real transaction
// (a bare contract hash, which the layered executor can put into the signer list, cannot).
func (w *World) signable(signers []util.Uint160) bool {
	for _, s := range signers {
		if _, ok := w.Signers[s]; !ok {
			return false
		}
	}
	return true
}

// ---------- block executor ----------

const (
	blockSysFee = 200_0000_0000
	blockNetFee = 5_0000_0000
)

// ReplayOnBlocks executes a recorded trace as real signed transactions in real blocks on
// top of the frozen chain and compares every observation and the storage at each block end.
// It returns a description of the first mismatch ("" if none). The world is consumed.
func (w *World) ReplayOnBlocks(trace []TraceEntry, dumps map[int]map[string]string) string {
	i := 0
	for i < len(trace) {
		j := i
		for j < len(trace) && trace[j].H == trace[i].H {
			if trace[j].TS != trace[i].TS {
				hpanic("trace: two timestamps in block %d", trace[i].H)
			}
			j++
		}
		target := trace[i].H
		cur := w.BC.BlockHeight() + 1
		if target < cur {
			hpanic("trace: block %d already passed (next is %d)", target, cur)
		}
		for cur < target { // filler blocks
			b := w.E.NewUnsignedBlock(w.T)
			w.E.SignBlock(b)
			if err := w.BC.AddBlock(b); err != nil {
				hpanic("filler block: %v", err)
			}
			cur++
		}
		var txs []*transaction.Transaction
		for k := i; k < j; k++ {
			c := trace[k].Call
			tx := w.mkTx(c.Script, c.Signers)
			tx.SystemFee = blockSysFee
			tx.NetworkFee = blockNetFee
			w.nonce++
			tx.Nonce = w.nonce
			tx.ValidUntilBlock = target + 10
			for _, s := range tx.Signers {
				sg, ok := w.Signers[s.Account]
				if !ok {
					hpanic("no key material for signer %s (call %s)", s.Account.StringLE(), c.Label)
				}
				if err := sg.SignTx(w.BC.GetConfig().Magic, tx); err != nil {
					hpanic("sign: %v", err)
				}
			}
			txs = append(txs, tx)
		}
		b := w.E.NewUnsignedBlock(w.T, txs...)
		if b.Timestamp > trace[i].TS {
			hpanic("trace: timestamp %d of block %d is in the past (chain at %d)", trace[i].TS, target, b.Timestamp)
		}
		b.Timestamp = trace[i].TS
		w.E.SignBlock(b)
		if err := w.BC.AddBlock(b); err != nil {
			hpanic("add block %d: %v", target, err)
		}
		for k := i; k < j; k++ {
			aers, err := w.BC.GetAppExecResults(txs[k-i].Hash(), trigger.Application)
			if err != nil || len(aers) != 1 {
				hpanic("no exec result for call %d: %v", k, err)
			}
			aer := aers[0]
			o := Obs{Halt: aer.VMState == vmstate.Halt, Fault: aer.FaultException}
			if o.Halt {
				for _, it := range aer.Stack {
					o.Stack = append(o.Stack, Norm(it))
				}
				o.Notifs = maskTxHash(w.normNotifs(aer.Events), txs[k-i].Hash())
			}
			if d := o.Digest(); d != trace[k].Obs {
				return fmt.Sprintf("call %d (%s): layered %s | block %s", k, trace[k].Call.Label, trace[k].Obs, d)
			}
		}
		if dumps != nil {
			ic, err := w.BC.GetTestVM(trigger.Application, nil, nil)
			if err != nil {
				panic(err)
			}
			got := w.FullDump(ic.DAO)
			ic.Finalize()
			if df := DiffDumps(dumps[j-1], got); len(df) > 0 {
				return fmt.Sprintf("storage after block %d (calls %d..%d) differs: %v", target, i, j-1, df)
			}
		}
		i = j
	}
	return ""
}

// faultText strips the position prefix ("at instruction N (OP): ") from a VM fault message.
func faultText(f string) string {
	if i := strings.Index(f, "): "); i >= 0 && strings.HasPrefix(f, "at instruction") {
		return f[i+3:]
	}
	return f
}

// SameNotifSet compares two notification lists as multisets: unless a statement fixes an order
// (C06's subscriber fan-out), the order in which one invocation emits its events is not judged.
func SameNotifSet(a, b []Notif) bool {
	if len(a) != len(b) {
		return false
	}
	as, bs := make([]string, len(a)), make([]string, len(b))
	for i := range a {
		as[i], bs[i] = fmt.Sprint(a[i]), fmt.Sprint(b[i])
	}
	sort.Strings(as)
	sort.Strings(bs)
	return fmt.Sprint(as) == fmt.Sprint(bs)
}
