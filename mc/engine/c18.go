package engine

import (
	"fmt"
	"net/netip"
	"regexp"
	"strconv"
	"strings"

	"github.com/nspcc-dev/neo-go/pkg/neotest"
	"github.com/nspcc-dev/neo-go/pkg/util"
)

// C18: NNS accepts exactly the well-formed names and record data. Stateless grid: every
// candidate string is pushed through every entry point that validates it, from one base state.

var (
	reLabel = `[a-z0-9](?:[a-z0-9-]{0,61}[a-z0-9])?`
	reTLD   = `[a-z](?:[a-z0-9-]{0,14}[a-z0-9])?`
	reName  = regexp.MustCompile(`^(?:` + reLabel + `\.)*` + reTLD + `$`)
	reOct   = regexp.MustCompile(`^(?:0|[1-9][0-9]{0,2})$`)
)

func refName(s string) bool { return len(s) >= 3 && len(s) <= 255 && reName.MatchString(s) }

func refA(s string) bool {
	p := strings.Split(s, ".")
	if len(p) != 4 {
		return false
	}
	var n [4]int
	for i, x := range p {
		if !reOct.MatchString(x) {
			return false
		}
		v, _ := strconv.Atoi(x)
		if v > 255 {
			return false
		}
		n[i] = v
	}
	// the contract's documented exclusion list (this-network, private, loopback, link-local,
	// multicast/reserved, network and broadcast host numbers)
	if n[0] == 0 || n[0] == 10 || n[0] == 127 || n[0] >= 224 || (n[0] == 169 && n[1] == 254) || (n[0] == 172 && n[1] >= 16 && n[1] <= 31) || (n[0] == 192 && n[1] == 168) || n[3] == 0 || n[3] == 255 {
		return false
	}
	return true
}

func refAAAA(s string) bool {
	if strings.ContainsAny(s, "%.") {
		return false
	}
	a, err := netip.ParseAddr(s)
	if err != nil || !a.Is6() {
		return false
	}
	b := a.As16()
	f0 := int(b[0])<<8 | int(b[1])
	f1 := int(b[2])<<8 | int(b[3])
	// IANA global unicast 2000::/3 minus 6to4 (2002::/16), 6bone (3ffe::/16), and under
	// 2001::/16 the special-purpose blocks below 2001:200:: and the documentation prefix
	if f0 < 0x2000 || f0 == 0x2002 || f0 == 0x3ffe || f0 > 0x3fff {
		return false
	}
	if f0 == 0x2001 && (f1 < 0x200 || f1 == 0xdb8) {
		return false
	}
	return true
}

type valCase struct {
	Kind string // name A AAAA TXT
	S    string
}

type ValGrid struct {
	u1 *Account
}

func NewValGrid() *ValGrid { return &ValGrid{} }

func (d *ValGrid) Name() string { return "nns-validators" }
func (d *ValGrid) Rule() string {
	return "all strings up to length 5 (quick) / 7 (thorough) over {a,z,0,9,-,.,A,_,+,space} as names, label/total length boundaries, IPv4 octet-symbol products and all (n0,n1) pairs, IPv6 group/compression/zone/suffix products, TXT length boundaries; each candidate goes through addRecord, setRecord and (names) isAvailable/register/registerTLD; non-trivial = the reference accepts the candidate or it differs from an accepted one by a single position; distinct by (kind, string)"
}

const (
	c18BaseA    = "8.8.4.4"
	c18BaseAAAA = "2a00:aaaa::77"
	c18BaseTXT  = "base"
)

func (d *ValGrid) Build() *World {
	w := NewWorld(3)
	nh := w.Deploy("nns", CompileDir(Repo, "nns"), []any{[]any{[]any{"com", "ops@x.y"}}}).Hash
	d.u1 = w.Acct("U1")
	w.FundGAS(d.u1.Hash, 1000_0000_0000)
	u1 := []neotest.Signer{d.u1.S}
	for _, n := range []string{"abc.com", "abd.com"} {
		w.Invoke(nh, u1, "register", n, d.u1.Hash, "e@x.y", int64(3600), int64(600), int64(100000), int64(3600))
	}
	w.Invoke(nh, u1, "addRecord", "abc.com", int64(rtA), c18BaseA)
	w.Invoke(nh, u1, "addRecord", "abc.com", int64(rtAAAA), c18BaseAAAA)
	w.Invoke(nh, u1, "addRecord", "abc.com", int64(rtTXT), c18BaseTXT)
	w.Invoke(nh, u1, "addRecord", "abd.com", int64(rtCNAME), "base.com")
	w.Freeze()
	return w
}

func (d *ValGrid) Cases(tier string) []GridCase {
	var out []GridCase
	seen := map[string]bool{}
	add := func(kind, s string) {
		k := kind + "\x00" + s
		if seen[k] {
			return
		}
		seen[k] = true
		out = append(out, GridCase{Name: kind + ":" + strconv.Quote(s), Data: valCase{kind, s}})
	}
	maxLen := 5
	if tier == "thorough" {
		maxLen = 7
	}
	alpha := []string{"a", "z", "0", "9", "-", ".", "A", "_", "+", " "}
	var gen func(prefix string, l int)
	gen = func(prefix string, l int) {
		if len(prefix) > 0 {
			add("name", prefix)
		}
		if l == 0 {
			return
		}
		for _, c := range alpha {
			gen(prefix+c, l-1)
		}
	}
	gen("", maxLen)
	rep := strings.Repeat
	for _, ll := range []int{1, 2, 15, 16, 17, 62, 63, 64} {
		add("name", rep("a", ll)+".com")
		add("name", "x."+rep("a", ll))
		add("name", rep("a", ll))
		add("name", "ab."+rep("b", ll)+".com")
		add("name", rep("a", ll-1)+"-.com")
		add("name", "-"+rep("a", ll-1)+".com")
		add("name", "x.0"+rep("a", ll-1))
	}
	for _, tot := range []int{252, 253, 254, 255, 256, 257} {
		n := rep("a", 63) + "." + rep("b", 63) + "." + rep("c", 63) + "."
		add("name", n+rep("d", tot-len(n)-4)+".com")
	}
	// the outer neighbours of the accepted byte ranges ('0'-1, '9'+1, 'a'-1, 'z'+1, 'A'-1, 'Z'+1) and bytes with the top
	// bit set, substituted at the first, an inner and the last position of a label and of the TLD
	for _, b := range []byte{0x00, 0x2f, 0x3a, 0x40, 0x5b, 0x60, 0x7b, 0x7f, 0x80, 0xff, '*', '@'} {
		for _, tmpl := range []string{"abc.com", "a-b.com", "x.abc", "ab.cd.com"} {
			for pos := 0; pos < len(tmpl); pos++ {
				if tmpl[pos] == '.' {
					continue
				}
				bs := []byte(tmpl)
				bs[pos] = b
				add("name", string(bs))
			}
		}
	}
	// every short string over the alphabet enlarged by those bytes
	{
		big := append([]string{}, alpha...)
		for _, b := range []byte{0x00, 0x2f, 0x3a, 0x40, 0x5b, 0x60, 0x7b, 0x80, 0xff} {
			big = append(big, string([]byte{b}))
		}
		var gen2 func(prefix string, l int)
		gen2 = func(prefix string, l int) {
			if len(prefix) > 0 {
				add("name", prefix)
				add("name", prefix+".com")
			}
			if l == 0 {
				return
			}
			for _, c := range big {
				gen2(prefix+c, l-1)
			}
		}
		gen2("", 3)
	}
	// the registration entry points see second-level names only: every enumerated string once more under .com
	var genCom func(prefix string, l int)
	genCom = func(prefix string, l int) {
		if len(prefix) > 0 {
			add("name", prefix+".com")
		}
		if l == 0 {
			return
		}
		for _, c := range alpha {
			genCom(prefix+c, l-1)
		}
	}
	genCom("", maxLen-1)
	add("name", "a..com")
	add("name", ".com")
	add("name", "com.")
	add("name", "a.com.")
	add("name", "xn--80ak6aa92e.com")
	add("name", "a.b.c.d.e.f.g.com")
	// ---- IPv4 ----
	oct := []string{"", "0", "1", "9", "10", "99", "127", "169", "172", "192", "223", "224", "254", "255", "256", "00", "01", "+1", "-1", "1 ", "16", "31", "32", "168", "0x1", "1e1"}
	for _, a := range oct {
		for _, b := range oct {
			for _, c := range []string{"1", "0", "", "+1"} {
				for _, e := range oct {
					add("A", a+"."+b+"."+c+"."+e)
				}
			}
		}
	}
	for n0 := 0; n0 <= 255; n0++ {
		for n1 := 0; n1 <= 255; n1++ {
			add("A", fmt.Sprintf("%d.%d.1.1", n0, n1))
		}
	}
	for n3 := 0; n3 <= 256; n3++ {
		add("A", fmt.Sprintf("8.8.8.%d", n3))
		add("A", fmt.Sprintf("8.8.%d.8", n3))
	}
	for _, s := range []string{"1.2.3", "1.2.3.4.5", "1.2.3.4.", ".1.2.3.4", "1..2.3", "1.2.3.4 ", " 1.2.3.4", "1.2.3.4\n", "1,2,3,4", "100.100.100.100", "255.255.255.254", "1.1.1.1000", "0001.1.1.1"} {
		add("A", s)
	}
	// ---- IPv6 ----
	grp := []string{"", "0", "1", "200", "1ff", "db8", "db9", "800", "1fff", "2000", "2001", "2002", "3ffe", "3fff", "4000", "8000", "ffff", "10000", "00001", "g", "+1", "2A00", "0db8", "f", "7fff", "-1"}
	heads := []string{"2001", "2000", "2a00", "3fff", "2002", "1fff", "4000", "", "2A00", "02a00", "3ffe", "3ffd", "+2a00", "fe80", "ff02"}
	tails := []string{"::1", "::", ":1:2:3:4:5:6", ":1:2:3:4:5:6:7", "::1:2:3:4:5", ":0:0:0:0:0:1", "::g", ":1::2::3", "::1%eth0", "::1.2.3.4", ":1:2:3:4:5::", ":1:2:3:4::", ":", "::8000", ":ffff:ffff:ffff:ffff:ffff:ffff", "::ffff:1", ":1:2:3:4:5:6:"}
	for _, h := range heads {
		for _, g1 := range grp {
			for _, tl := range tails {
				add("AAAA", h+":"+g1+tl)
			}
		}
	}
	for _, s := range []string{"::", "::1", "2a00::", "2a00:1450:4001:81b::200e", "2a00:1450:4001:81b:0:0:0:200e", "2a00:1450:4001:081b::200e", ":2a00::1", "2a00::1:", "2a00", "2a00:1", "1:2:3:4:5:6:7:8", "2a00:2:3:4:5:6:7:8", "2a00:2:3:4:5:6:7:8:9", "2a00:2:3:4:5:6:7::", "2a00::2:3:4:5:6:7", "2a00:::1", "::2a00:1", "2a00::1::", "2a00:0000:0000:0000:0000:0000:0000:0001", "2a00:0000:0000:0000:0000:0000:0000:00001", " 2a00::1", "2a00::1 ", "[2a00::1]", "2a00::1/64"} {
		add("AAAA", s)
	}
	// every boundary / malformed group at every group position of a full and of a compressed address, every
	// boundary / malformed octet at every octet position
	{
		full := []string{"2a00", "1", "2", "3", "4", "5", "6", "7"}
		for pos := range full {
			for _, g := range grp {
				f := append([]string{}, full...)
				f[pos] = g
				add("AAAA", strings.Join(f, ":"))
			}
		}
		comp := []string{"2a00", "", "5", "6", "7"} // 2a00::5:6:7
		for pos := range comp {
			if comp[pos] == "" {
				continue
			}
			for _, g := range grp {
				f := append([]string{}, comp...)
				f[pos] = g
				add("AAAA", strings.Join(f, ":"))
			}
		}
		v4 := []string{"8", "8", "8", "8"}
		for pos := range v4 {
			for _, o := range oct {
				f := append([]string{}, v4...)
				f[pos] = o
				add("A", strings.Join(f, "."))
			}
		}
	}
	// every placement of '::' : k explicit groups (1..8), the gap in every position 0..k, also with a leading or a
	// trailing group of zeros next to it
	for k := 1; k <= 8; k++ {
		groups := []string{"2a00"}
		for i := 1; i < k; i++ {
			groups = append(groups, fmt.Sprintf("%x", i))
		}
		for gap := 0; gap <= k; gap++ {
			left, right := strings.Join(groups[:gap], ":"), strings.Join(groups[gap:], ":")
			add("AAAA", left+"::"+right)
			if gap > 0 && gap < k {
				add("AAAA", left+":0::"+right)
				add("AAAA", left+"::0:"+right)
			}
		}
		add("AAAA", strings.Join(groups, ":"))
	}
	// ---- TXT ----
	for _, l := range []int{0, 1, 2, 254, 255, 256, 257, 300} {
		add("TXT", rep("t", l))
	}
	add("TXT", "with space and \x00 bytes")
	return out
}

func (d *ValGrid) Eval(x *Exec, root *Node, gc GridCase) GridResult {
	w := x.W
	c := gc.Data.(valCase)
	h := w.Contracts["nns"].Hash
	u1 := []util.Uint160{d.u1.Hash}
	var typ int64
	var ref bool
	var base string
	setName := "abc.com"
	switch c.Kind {
	case "name":
		typ, ref, base, setName = rtCNAME, refName(c.S), "base.com", "abd.com"
	case "A":
		typ, ref, base = rtA, refA(c.S), c18BaseA
	case "AAAA":
		typ, ref, base = rtAAAA, refAAAA(c.S), c18BaseAAAA
	case "TXT":
		typ, ref, base = rtTXT, len(c.S) <= 255, c18BaseTXT
	}
	where := map[string]any{"kind": c.Kind, "form": classify(c.Kind, c.S)}
	var vs []*Violation
	check := func(path string, o Obs, want bool) {
		acc := o.Halt
		if path == "register" {
			acc = o.Halt && Same(o.Ret0(), "i1")
		}
		if acc == want {
			return
		}
		wh := map[string]any{"path": path}
		for k, v := range where {
			wh[k] = v
		}
		if acc {
			vs = append(vs, Viol("accepts-malformed", fmt.Sprintf("%s accepts %s %q, which is not well-formed", path, c.Kind, c.S), wh))
		} else {
			vs = append(vs, Viol("rejects-well-formed", fmt.Sprintf("%s rejects the well-formed %s %q (%s)", path, c.Kind, c.S, o.Fault), wh))
		}
	}
	outcome := "rejected"
	if c.S != base {
		o, after := x.Do(root, Call{Script: Script(h, "addRecord", "abc.com", typ, c.S), Signers: u1, Label: "addRecord " + gc.Name})
		check("addRecord", o, ref)
		if !o.Halt {
			if len(DiffDumps(w.FullDump(root.L), w.FullDump(after.L))) > 0 {
				vs = append(vs, Viol("refused-but-changed", "a rejected addRecord changed state", where))
			}
		} else {
			outcome = "accepted"
		}
		check("setRecord", w.Run(root.L, root.H, root.TS, Script(h, "setRecord", setName, typ, int64(0), c.S), u1...), ref)
	}
	if c.Kind == "name" {
		dots := strings.Count(c.S, ".")
		if dots == 0 {
			if c.S != "com" {
				check("registerTLD", w.Run(root.L, root.H, root.TS, Script(h, "registerTLD", c.S, "e@x.y", int64(3600), int64(600), int64(100000), int64(3600)), w.Comm), ref)
			}
			check("isAvailable", w.Read(root.L, root.H, root.TS, h, "isAvailable", c.S), ref)
		}
		if strings.HasSuffix(c.S, ".com") {
			check("isAvailable", w.Read(root.L, root.H, root.TS, h, "isAvailable", c.S), ref)
			if dots == 1 && c.S != "abc.com" && c.S != "abd.com" {
				check("register", w.Run(root.L, root.H, root.TS, Script(h, "register", c.S, d.u1.Hash, "e@x.y", int64(3600), int64(600), int64(100000), int64(3600)), u1...), ref)
			}
		}
	}
	return GridResult{Outcome: c.Kind + ":" + outcome, Nontrivial: ref || nearValid(c), V: vs}
}

// nearValid: a rejected candidate that sits next to the accepted set (boundary cases).
func nearValid(c valCase) bool {
	switch c.Kind {
	case "A":
		s := strings.NewReplacer("+", "", " ", "", "-", "").Replace(c.S)
		p := strings.Split(s, ".")
		if len(p) != 4 {
			return false
		}
		for _, x := range p {
			if v, err := strconv.Atoi(x); err != nil || v > 256 {
				return false
			}
		}
		return true
	case "AAAA":
		_, err := netip.ParseAddr(strings.ToLower(strings.TrimSuffix(c.S, ":")))
		return err == nil
	case "name":
		return refName(strings.ToLower(strings.Trim(c.S, "-. _+")))
	case "TXT":
		return true
	}
	return false
}

// classify names the syntactic form of a candidate; known findings are keyed by it.
func classify(kind, s string) string {
	switch kind {
	case "A":
		if strings.Contains(s, "+") {
			return "plus-sign-octet"
		}
	case "AAAA":
		l := strings.ToLower(s)
		if strings.HasSuffix(l, "::") && strings.Count(l, ":") == 8 && !strings.HasPrefix(l, ":") {
			return "7-groups-then-double-colon"
		}
		if strings.HasPrefix(l, "2001:") {
			p := strings.Split(l, ":")
			if len(p) > 1 && len(p[1]) > 0 && len(p[1]) <= 4 {
				if v, err := strconv.ParseUint(p[1], 16, 32); err == nil {
					top := uint64(1) << (4*uint(len(p[1])) - 1)
					if v&top != 0 {
						return "2001-second-group-top-bit-set"
					}
				}
			}
		}
	}
	return "other"
}
