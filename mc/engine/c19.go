package engine

import (
	"fmt"
	"github.com/nspcc-dev/neo-go/pkg/vm/stackitem"
	"math/bits"

	"github.com/nspcc-dev/neo-go/pkg/compiler"
	"github.com/nspcc-dev/neo-go/pkg/core/native/nativenames"
	"github.com/nspcc-dev/neo-go/pkg/neotest"
	"github.com/nspcc-dev/neo-go/pkg/util"
)

// C19: GAS accounting of the governance contracts.

const payProbeSrc = `package payprobe

import (
	"github.com/nspcc-dev/neo-go/pkg/interop"
	"github.com/nspcc-dev/neo-go/pkg/interop/contract"
)

// Pay plays a token contract that is not GAS: it calls the receiver's payment hook itself.
func Pay(target interop.Hash160, from interop.Hash160, amount int, data any) {
	contract.Call(target, "onNEP17Payment", contract.All, from, amount, data)
}
`

func payProbe() *Compiled {
	return CompileSource("payprobe", payProbeSrc, &compiler.Options{Name: "payprobe", NoEventsCheck: true, NoPermissionsCheck: true, Permissions: WildPermissions()})
}

// ---------- C19a: NeoFS / Processing ledger (BFS) ----------

type gasModel struct {
	gasU, gasC, gasP, gasX int64
	cfee                   int64 // the candidate fee in force
	gasW                   int64 // a user who holds one unit less than the withdrawal fees at the initial setting
	gasIR                  []int64
	fee                    int64
	cand                   bool
	votes                  map[string]uint8 // without Notary: decision -> bitmask of Alphabet keys that voted
}

func (m *gasModel) Clone() Model {
	c := *m
	c.gasIR = append([]int64{}, m.gasIR...)
	c.votes = map[string]uint8{}
	for k, v := range m.votes {
		c.votes[k] = v
	}
	return &c
}
func (m *gasModel) Key() []byte { return nil }

type gasOp struct {
	kind   string // deposit direct fake withdraw cheque candAdd candRm setFee
	amt    int64
	data   string // nil rcv bad19 ignore rcvMarked marker3
	signer string // U S X AL (without Notary: the first stored Alphabet key) I1 I2 I3 (the other stored keys)
}

type GasDriver struct {
	Notary  bool
	N       int
	Votes   bool // only the vote-collected decisions (and a deposit to pay from): a small alphabet, searched deeper
	ops     []gasOp
	u, s, x *Account
	wp      *Account
	ir      []*Account
}

const (
	gasUnit    = int64(1_0000_0000)
	maxDeposit = 9000 * gasUnit
	candFee    = gasUnit
)

// NewGasVotesDriver: the ledger without Notary, reduced to the decisions that are collected vote by vote - a cheque
// voted for by each of the four keys while another decision is pending, late and repeated votes.
func NewGasVotesDriver(n int) *GasDriver {
	d := &GasDriver{Notary: false, N: n, Votes: true}
	d.ops = append(d.ops, gasOp{kind: "deposit", amt: 7, data: "nil", signer: "U"})
	for k, sg := range []string{"AL", "I1", "I2", "I3"}[:min(n, 4)] {
		d.ops = append(d.ops, gasOp{kind: "cheque", amt: 3, signer: sg})
		if k < 2 {
			d.ops = append(d.ops, gasOp{kind: "setFee", amt: 2, signer: sg})
		}
	}
	return d
}

func NewGasDriver(notary bool, n int) *GasDriver {
	d := &GasDriver{Notary: notary, N: n}
	add := func(o ...gasOp) { d.ops = append(d.ops, o...) }
	for _, a := range []int64{0, 1, maxDeposit, maxDeposit + 1} {
		add(gasOp{kind: "deposit", amt: a, data: "nil", signer: "U"})
	}
	add(gasOp{kind: "deposit", amt: 7, data: "rcv", signer: "U"}, gasOp{kind: "deposit", amt: 7, data: "bad19", signer: "U"},
		gasOp{kind: "deposit", amt: 7, data: "ignore", signer: "U"}, gasOp{kind: "deposit", amt: 7, data: "nil", signer: "S"},
		gasOp{kind: "deposit", amt: 7, data: "rcvMarked", signer: "U"}, gasOp{kind: "deposit", amt: 7, data: "marker3", signer: "U"},
		gasOp{kind: "direct", amt: 7, data: "nil", signer: "U"}, gasOp{kind: "direct", amt: 7, data: "ignore", signer: "U"},
		gasOp{kind: "fake", amt: 7, data: "nil", signer: "U"})
	for _, a := range []int64{-1, 0, 1, 9000, 9001} {
		add(gasOp{kind: "withdraw", amt: a, signer: "U"})
	}
	add(gasOp{kind: "withdraw", amt: 1, signer: "W"})
	add(gasOp{kind: "withdraw", amt: 1, signer: "S"},
		gasOp{kind: "candAdd", signer: "X"}, gasOp{kind: "candAdd", signer: "S"}, gasOp{kind: "candRm", signer: "X"}, gasOp{kind: "candRm", signer: "S"})
	if notary || n == 1 {
		add(gasOp{kind: "cheque", amt: 1, signer: "AL"}, gasOp{kind: "cheque", amt: 3, signer: "AL"}, gasOp{kind: "cheque", amt: 3, signer: "S"}, gasOp{kind: "cheque", amt: 3, signer: "U"},
			gasOp{kind: "cheque", amt: 2 * maxDeposit, signer: "AL"},
			gasOp{kind: "setFee", amt: 0, signer: "AL"}, gasOp{kind: "setFee", amt: 2, signer: "AL"}, gasOp{kind: "setFee", amt: 2, signer: "S"}, gasOp{kind: "candRm", signer: "AL"},
			// the candidate fee changed after deployment: to nothing, and to more than the candidate holds
			gasOp{kind: "setCandFee", amt: 0, signer: "AL"}, gasOp{kind: "setCandFee", amt: 2 * candFee, signer: "AL"})
	}
	if notary && n/2+1 != n*2/3+1 {
		// the committee-majority account and a single member are not the Alphabet (2/3+1) account
		for _, sg := range []string{"CM", "M0"} {
			add(gasOp{kind: "cheque", amt: 3, signer: sg}, gasOp{kind: "setFee", amt: 2, signer: sg}, gasOp{kind: "candRm", signer: sg})
		}
	}
	if !(notary || n == 1) {
		// without Notary and with several keys every Alphabet decision is vote-collected: one op per key
		for k, sg := range []string{"AL", "I1", "I2", "I3"}[:min(n, 4)] {
			add(gasOp{kind: "cheque", amt: 3, signer: sg})
			if k < 3 {
				add(gasOp{kind: "setFee", amt: 2, signer: sg}, gasOp{kind: "candRm", signer: sg})
			}
		}
		add(gasOp{kind: "cheque", amt: 3, signer: "S"}, gasOp{kind: "cheque", amt: 3, signer: "U"}, gasOp{kind: "setFee", amt: 2, signer: "S"})
	}
	return d
}

func (d *GasDriver) Build() *World {
	w := NewWorld(d.N)
	d.u, d.s, d.x = w.Acct("U"), w.Acct("S"), w.Acct("X")
	w.FundGAS(d.u.Hash, 40000*gasUnit)
	w.FundGAS(d.x.Hash, 2*candFee-1) // the candidate can pay the initial fee once, and not a doubled one
	// W can pay all withdrawal fees but the last unit (7 per payee: Processing with Notary, every stored key without)
	d.wp = w.Acct("W")
	payees := int64(1)
	if !d.Notary {
		payees = int64(d.N)
	}
	w.FundGAS(d.wp.Hash, 7*payees-1)
	w.Track("W", d.wp.Hash, false)
	var ks []any
	d.ir = nil
	if d.Notary {
		for _, k := range w.Pubs {
			ks = append(ks, k.Bytes()) // the stored Alphabet is the chain committee: its 2/3+1 account is w.Alpha
		}
	} else {
		for i := 0; i < d.N; i++ {
			a := w.Acct(fmt.Sprintf("ir%d", i))
			d.ir = append(d.ir, a)
			ks = append(ks, a.Pub())
			w.Track(a.Name, a.Hash, false)
		}
	}
	cfg := []any{[]byte("InnerRingCandidateFee"), candFee, []byte("WithdrawFee"), int64(7)}
	// Processing needs the NeoFS address and NeoFS the Processing address: predict the latter
	pc := CompileDir(Repo, "processing")
	nf := w.Deploy("neofs", CompileDir(Repo, "neofs"), []any{!d.Notary, w.PredictHash(pc), ks, cfg})
	w.Deploy("processing", pc, []any{nf.Hash})
	w.Deploy("payprobe", payProbe(), nil)
	w.Track("U", d.u.Hash, false)
	w.Track("X", d.x.Hash, false)
	w.Track("neofs", nf.Hash, false)
	w.Track("processing", w.Contracts["processing"].Hash, false)
	w.Freeze()
	return w
}

func (d *GasDriver) Init(w *World) Model {
	m := &gasModel{fee: 7, cfee: candFee, votes: map[string]uint8{}}
	m.gasU, m.gasX = gasOf(w, w.Root, d.u.Hash), gasOf(w, w.Root, d.x.Hash)
	m.gasW = gasOf(w, w.Root, d.wp.Hash)
	for _, a := range d.ir {
		m.gasIR = append(m.gasIR, gasOf(w, w.Root, a.Hash))
	}
	return m
}
func (d *GasDriver) NumOps() int { return len(d.ops) }
func (d *GasDriver) OpName(_ *Node, i int) string {
	o := d.ops[i]
	switch o.kind {
	case "deposit":
		return fmt.Sprintf("GAS.transfer(%s->neofs,%d,data=%s)", o.signer, o.amt, o.data)
	case "direct":
		return fmt.Sprintf("neofs.onNEP17Payment(U,%d,data=%s) called directly by %s", o.amt, o.data, o.signer)
	case "fake":
		return fmt.Sprintf("a non-GAS contract calls neofs.onNEP17Payment(U,%d)", o.amt)
	case "withdraw":
		return fmt.Sprintf("withdraw(U,%d) by %s", o.amt, o.signer)
	case "cheque":
		return fmt.Sprintf("cheque(id,U,%d) by %s", o.amt, o.signer)
	case "setFee":
		return fmt.Sprintf("setConfig(WithdrawFee=%d) by %s", o.amt, o.signer)
	case "setCandFee":
		return fmt.Sprintf("setConfig(InnerRingCandidateFee=%d) by %s", o.amt, o.signer)
	case "candAdd":
		return "innerRingCandidateAdd(X) by " + o.signer
	}
	return "innerRingCandidateRemove(X) by " + o.signer
}
func (d *GasDriver) Enabled(*Node, int) bool { return true }

func (d *GasDriver) Step(x *Exec, n *Node, i int) StepResult {
	w := x.W
	m := n.M.(*gasModel)
	nm := m.Clone().(*gasModel)
	o := d.ops[i]
	h := w.Contracts["neofs"].Hash
	proc := w.Contracts["processing"].Hash
	where := map[string]any{"op": o.kind, "notary": d.Notary, "n": d.N}
	viol := func(class, msg string) StepResult {
		return StepResult{V: Viol(class, msg, where), Outcome: "violation"}
	}
	var signer util.Uint160
	voter := 0
	switch o.signer {
	case "U":
		signer = d.u.Hash
	case "S":
		signer = d.s.Hash
	case "X":
		signer = d.x.Hash
	case "AL":
		if d.Notary {
			signer = w.Alpha
		} else {
			signer = d.ir[0].Hash
		}
	case "W":
		signer = d.wp.Hash
	case "CM":
		signer = w.Comm
	case "M0":
		signer = w.Members[0].Hash
	case "I1", "I2", "I3":
		voter = int(o.signer[1] - '0')
		signer = d.ir[voter].Hash
	}
	alpha := o.signer == "AL" || voter > 0
	// decided reports whether this invocation completes the decision: always with Notary (the multi-signature
	// is the decision), at floor(2n/3)+1 distinct stored keys without it
	decided := func(key string) bool {
		if d.Notary {
			return true
		}
		b := nm.votes[key] | 1<<voter
		if bits.OnesCount8(b) >= d.N*2/3+1 {
			delete(nm.votes, key)
			return true
		}
		nm.votes[key] = b
		return false
	}
	var data any
	rcv := d.u.Hash
	switch o.data {
	case "rcv":
		data = d.s.Hash.BytesBE()
		rcv = d.s.Hash
	case "bad19":
		data = make([]byte, 19)
	case "rcvMarked":
		// an ordinary 20-byte receiver that happens to begin with the two bytes the contract's own fee payments carry
		rcv = util.Uint160{0x57, 0x0b, 0x01}
		data = rcv.BytesBE()
	case "marker3":
		data = []byte{0x57, 0x0b, 0x00} // begins like the fee marker, is neither it nor a receiver
	case "ignore":
		data = []byte{0x57, 0x0b}
	}
	gx := func(b []byte) any { return NX(b) }
	expHalt := true
	freeOutcome := false
	var expRet any
	var expN []Notif
	var scr []byte
	switch o.kind {
	case "deposit":
		from := d.u.Hash
		if o.signer == "S" {
			// S signs a transfer out of U's account: the native token refuses
			scr = Script(w.GasHash, "transfer", from, h, o.amt, data)
			expRet = "i0"
			break
		}
		scr = Script(w.GasHash, "transfer", from, h, o.amt, data)
		switch {
		case o.amt > m.gasU:
			expRet = "i0"
		case o.data == "ignore":
			expRet = "i1"
			nm.gasU -= o.amt
			nm.gasC += o.amt
			expN = []Notif{{"GAS", "Transfer", []any{gx(from.BytesBE()), gx(h.BytesBE()), NI(o.amt)}}}
		case o.amt <= 0 || o.amt > maxDeposit || o.data == "bad19" || o.data == "marker3":
			expHalt = false
		default:
			expRet = "i1"
			nm.gasU -= o.amt
			nm.gasC += o.amt
			expN = []Notif{{"GAS", "Transfer", []any{gx(from.BytesBE()), gx(h.BytesBE()), NI(o.amt)}},
				{"neofs", "Deposit", []any{gx(from.BytesBE()), NI(o.amt), gx(rcv.BytesBE()), "xTXHASH"}}}
		}
	case "direct":
		scr = Script(h, "onNEP17Payment", d.u.Hash, o.amt, data)
		if o.data != "ignore" {
			expHalt = false // not called by GAS
		}
	case "fake":
		scr = Script(w.Contracts["payprobe"].Hash, "pay", h, d.u.Hash, o.amt, data)
		expHalt = false
	case "withdraw":
		user, have := d.u.Hash, m.gasU
		if o.signer == "W" {
			user, have = d.wp.Hash, m.gasW // withdraws for itself
		}
		scr = Script(h, "withdraw", user, o.amt)
		payees := []util.Uint160{proc}
		if !d.Notary {
			payees = nil
			for _, a := range d.ir {
				payees = append(payees, a.Hash)
			}
		}
		total := m.fee * int64(len(payees))
		own := o.signer == "U" || o.signer == "W"
		// the statement bounds deposits (0 < amount <= 9000 GAS), not withdrawal requests: whether a request for
		// 0 or for more than 9000 GAS is refused is free, what an accepted one charges is not
		freeOutcome = own && (o.amt == 0 || o.amt > 9000) && total <= have
		if !own || o.amt < 0 || total > have {
			expHalt = false // also when only the last of several payees cannot be paid: nothing of the request stays
		} else {
			if o.signer == "W" {
				nm.gasW -= total
			} else {
				nm.gasU -= total
			}
			for k, p := range payees {
				if d.Notary {
					nm.gasP += m.fee
				} else {
					nm.gasIR[k] += m.fee
				}
				expN = append(expN, Notif{"GAS", "Transfer", []any{gx(user.BytesBE()), gx(p.BytesBE()), NI(m.fee)}})
			}
			expN = append(expN, Notif{"neofs", "Withdraw", []any{gx(user.BytesBE()), NI(o.amt * gasUnit), "xTXHASH"}})
		}
	case "cheque":
		scr = Script(h, "cheque", []byte(fmt.Sprintf("cheque-%d", o.amt)), d.u.Hash, o.amt, []byte("lock"))
		if !alpha {
			expHalt = false
		} else if !decided(fmt.Sprintf("cheque-%d", o.amt)) {
			// a vote short of the threshold: recorded, nothing paid
		} else if o.amt > m.gasC {
			expHalt = false
		} else {
			nm.gasC -= o.amt
			nm.gasU += o.amt
			expN = []Notif{{"GAS", "Transfer", []any{gx(h.BytesBE()), gx(d.u.Hash.BytesBE()), NI(o.amt)}},
				{"neofs", "Cheque", []any{NXs(fmt.Sprintf("cheque-%d", o.amt)), gx(d.u.Hash.BytesBE()), NI(o.amt), NXs("lock")}}}
		}
	case "setFee":
		val := []byte{}
		if o.amt > 0 {
			val = []byte{byte(o.amt)}
		}
		scr = Script(h, "setConfig", []byte(fmt.Sprintf("fee-%d", o.amt)), []byte("WithdrawFee"), val)
		if !alpha {
			expHalt = false
		} else if !decided(fmt.Sprintf("fee-%d", o.amt)) {
		} else {
			nm.fee = o.amt
			expN = []Notif{{"neofs", "SetConfig", []any{NXs(fmt.Sprintf("fee-%d", o.amt)), NXs("WithdrawFee"), NX(val)}}}
		}
	case "setCandFee":
		val, _ := stackitem.Make(o.amt).TryBytes()
		scr = Script(h, "setConfig", []byte(fmt.Sprintf("cfee-%d", o.amt)), []byte("InnerRingCandidateFee"), val)
		if !alpha {
			expHalt = false
		} else if !decided(fmt.Sprintf("cfee-%d", o.amt)) {
		} else {
			nm.cfee = o.amt
			expN = []Notif{{"neofs", "SetConfig", []any{NXs(fmt.Sprintf("cfee-%d", o.amt)), NXs("InnerRingCandidateFee"), NX(val)}}}
		}
	case "candAdd":
		scr = Script(h, "innerRingCandidateAdd", d.x.Pub())
		if o.signer != "X" || m.cand || m.gasX < m.cfee {
			expHalt = false
		} else {
			nm.cand = true
			nm.gasX -= m.cfee
			nm.gasC += m.cfee
			expN = []Notif{{"GAS", "Transfer", []any{gx(d.x.Hash.BytesBE()), gx(h.BytesBE()), NI(m.cfee)}}}
		}
	case "candRm":
		scr = Script(h, "innerRingCandidateRemove", d.x.Pub())
		if o.signer == "S" || o.signer == "U" || o.signer == "CM" || o.signer == "M0" {
			expHalt = false
		} else if o.signer == "X" || decided("candrm") {
			nm.cand = false
		}
	}
	obs, nn := x.Do(n, Call{Script: scr, Signers: []util.Uint160{signer}, Label: d.OpName(n, i)})
	diff := DiffDumps(w.FullDump(n.L), w.FullDump(nn.L))
	if obs.Halt != expHalt && !(freeOutcome && !obs.Halt) {
		return viol("outcome", fmt.Sprintf("model expects halt=%v, contract halt=%v fault=%q", expHalt, obs.Halt, obs.Fault))
	}
	if !obs.Halt {
		if len(diff) > 0 {
			return viol("refused-but-changed", fmt.Sprint(diff))
		}
		nn.M = m
		return StepResult{Next: nn, Outcome: "FAULT"}
	}
	if expRet != nil && !Same(obs.Ret0(), expRet) {
		return viol("result", fmt.Sprintf("returned %v, model %v", obs.Stack, expRet))
	}
	if Same(expRet, "i0") {
		if len(diff) > 0 || len(obs.Notifs) > 0 {
			return viol("refused-but-changed", fmt.Sprint(diff, obs.Notifs))
		}
		nn.M = m
		return StepResult{Next: nn, Outcome: "HALT:false"}
	}
	// every Deposit notification matches a GAS transfer to the contract of the same amount in the same transaction
	for k, nf := range obs.Notifs {
		if nf.Contract == "neofs" && nf.Name == "Deposit" {
			if k == 0 || obs.Notifs[k-1].Name != "Transfer" || obs.Notifs[k-1].Contract != "GAS" || !Same(obs.Notifs[k-1].Args[2], nf.Args[1]) || !Same(obs.Notifs[k-1].Args[1], gx(h.BytesBE())) {
				return viol("deposit-without-gas", fmt.Sprintf("Deposit notification not backed by a GAS transfer: %v", obs.Notifs))
			}
		}
	}
	if !SameNotifSet(obs.Notifs, expN) {
		return viol("notifications", fmt.Sprintf("got %v want %v", obs.Notifs, expN))
	}
	// ---- the ledger identity on real balances ----
	check := func(name string, hh util.Uint160, want int64) *StepResult {
		if got := gasOf(w, nn.L, hh); got != want {
			where["account"] = name
			r := viol("gas-ledger", fmt.Sprintf("GAS of %s is %d, ledger model says %d", name, got, want))
			return &r
		}
		return nil
	}
	base := gasOf(w, w.Root, h)
	for _, c := range []struct {
		n string
		h util.Uint160
		v int64
	}{{"U", d.u.Hash, nm.gasU}, {"neofs", h, base + nm.gasC}, {"processing", proc, nm.gasP}, {"X", d.x.Hash, nm.gasX}, {"W", d.wp.Hash, nm.gasW}} {
		if r := check(c.n, c.h, c.v); r != nil {
			return *r
		}
	}
	for k, a := range d.ir {
		if r := check(a.Name, a.Hash, nm.gasIR[k]); r != nil {
			return *r
		}
	}
	r := w.Read(nn.L, nn.H, nn.TS, h, "innerRingCandidates")
	l, _ := r.Ret0().([]any)
	if (len(l) == 1) != nm.cand {
		return viol("candidates", fmt.Sprintf("innerRingCandidates=%v model present=%v", r.Stack, nm.cand))
	}
	nn.M = nm
	return StepResult{Next: nn, Outcome: "HALT", Changed: len(diff) > 0}
}

// ---------- C19b: Alphabet emit and payment acceptance (grid) ----------

type emitCase struct {
	Kind   string // emit accept
	Index  int    // Alphabet contract index
	IR     int    // Inner Ring size
	G      int64
	NEO    int64  // NEO the contract holds (emit claims the GAS it generated first)
	Wait   uint32 // blocks between funding and emit
	Signer string // own other alpha stranger
	Target string // accept: proxy processing alphabet
	Token  string // accept: GAS NEO fake
}

type EmitGrid struct {
	ir     []*Account
	s      *Account
	funder *Account
}

func NewEmitGrid() *EmitGrid     { return &EmitGrid{} }
func (d *EmitGrid) Name() string { return "alphabet-emit" }
func (d *EmitGrid) Rule() string {
	return "emit: Alphabet contract index {0,2} x Inner Ring size 1..7 x contract GAS g in [0,256] (quick) / [0,4096] (thorough) plus 10^k, 10^k+-1, 2^k+-1 up to 10^12 x signer {own node, other node, Alphabet multisig, stranger}, plus contracts holding NEO {1,100,1000} for {1,50} blocks (g = GAS held + GAS claimed by emit itself); acceptance: {Proxy, Processing, Alphabet} x {GAS, NEO, non-GAS contract}; non-trivial = emit succeeded with g >= 2 or a payment was judged; distinct by case"
}

func (d *EmitGrid) Build() *World {
	w := NewWorld(4)
	w.Deploy("nns", CompileDir(Repo, "nns"), []any{[]any{[]any{"neofs", "ops@x.y"}}})
	dn := w.Deploy("netmap", CompileDir(Repo, "netmap"), []any{false, util.Uint160{}, util.Uint160{}, []any{}, []any{}})
	px := w.Deploy("proxy", CompileDir(Repo, "proxy"), nil)
	ac := CompileDir(Repo, "alphabet")
	// two Alphabet contracts (different manifest names give different hashes)
	for _, idx := range []int{0, 2, 5} { // index 5 has no node of its own on a 4-key committee
		c := &Compiled{NEF: ac.NEF, Manifest: cloneManifestWithName(ac, fmt.Sprintf("alphabet%d", idx))}
		w.Deploy(fmt.Sprintf("alphabet%d", idx), c, []any{false, dn.Hash, px.Hash, fmt.Sprintf("alph%d", idx), int64(idx), int64(4)})
	}
	pc := CompileDir(Repo, "processing")
	w.Deploy("processing", pc, []any{util.Uint160{9}})
	w.Deploy("payprobe", payProbe(), nil)
	d.ir = nil
	for i := 0; i < 7; i++ {
		d.ir = append(d.ir, w.Acct(fmt.Sprintf("ir%d", i)))
	}
	d.s = w.Acct("S")
	d.funder = w.Acct("funder")
	w.FundGAS(d.funder.Hash, 100000*gasUnit)
	w.FundNEO(d.funder.Hash, 1000)
	w.Freeze()
	return w
}

func (d *EmitGrid) Cases(tier string) []GridCase {
	var out []GridCase
	add := func(c emitCase) {
		n := fmt.Sprintf("emit index=%d ir=%d g=%d signer=%s", c.Index, c.IR, c.G, c.Signer)
		if c.NEO > 0 {
			n += fmt.Sprintf(" neo=%d wait=%d", c.NEO, c.Wait)
		}
		if c.Kind == "accept" {
			n = fmt.Sprintf("accept target=%s token=%s", c.Target, c.Token)
		}
		out = append(out, GridCase{Name: n, Data: c})
	}
	maxG := int64(256)
	if tier == "thorough" {
		maxG = 4096
	}
	var gs []int64
	for g := int64(0); g <= maxG; g++ {
		gs = append(gs, g)
	}
	for k, p10, p2 := 0, int64(1), int64(1); k < 13; k++ {
		gs = append(gs, p10-1, p10, p10+1)
		p10 *= 10
		_ = p2
	}
	for k := 9; k <= 40; k++ {
		gs = append(gs, int64(1)<<uint(k)-1, int64(1)<<uint(k)+1)
	}
	for _, idx := range []int{0, 2} {
		for ir := 1; ir <= 7; ir++ {
			for _, g := range gs {
				if g < 0 || (idx == 2 && g > 64 && g <= maxG && g%7 != 0) {
					continue // the second contract samples the dense range more thinly
				}
				add(emitCase{Kind: "emit", Index: idx, IR: ir, G: g, Signer: "own"})
			}
			for _, sg := range []string{"other", "alpha", "stranger"} {
				add(emitCase{Kind: "emit", Index: idx, IR: ir, G: 1000, Signer: sg})
			}
		}
	}
	// the documented way of working: the contract holds NEO, and emit first claims the GAS it generated
	for _, ir := range []int{1, 2, 3, 7} {
		for _, g := range []int64{0, 1, 7, 1000, 12345} {
			for _, neo := range []int64{1, 100, 1000} {
				for _, wt := range []uint32{1, 50} {
					add(emitCase{Kind: "emit", Index: 0, IR: ir, G: g, NEO: neo, Wait: wt, Signer: "own"})
				}
			}
		}
		add(emitCase{Kind: "emit", Index: 0, IR: ir, G: 1000, NEO: 100, Wait: 50, Signer: "stranger"})
	}
	for ir := 1; ir <= 3; ir++ {
		for _, sg := range []string{"wrapped", "other", "alpha", "stranger"} {
			add(emitCase{Kind: "emit", Index: 5, IR: ir, G: 1000, Signer: sg})
		}
	}
	for _, t := range []string{"proxy", "processing", "alphabet0"} {
		for _, tok := range []string{"GAS", "NEO", "fake"} {
			add(emitCase{Kind: "accept", Target: t, Token: tok})
		}
	}
	return out
}

func (d *EmitGrid) Eval(x *Exec, root *Node, gc GridCase) GridResult {
	w := x.W
	c := gc.Data.(emitCase)
	where := map[string]any{"kind": c.Kind}
	var vs []*Violation
	if c.Kind == "accept" {
		target := w.Contracts[c.Target].Hash
		var o Obs
		switch c.Token {
		case "GAS":
			o, _ = x.Do(root, Call{Script: Script(w.GasHash, "transfer", d.funder.Hash, target, int64(5), nil), Signers: []util.Uint160{d.funder.Hash}, Label: gc.Name})
		case "NEO":
			o, _ = x.Do(root, Call{Script: Script(w.NeoHash, "transfer", d.funder.Hash, target, int64(5), nil), Signers: []util.Uint160{d.funder.Hash}, Label: gc.Name})
		case "fake":
			o, _ = x.Do(root, Call{Script: Script(w.Contracts["payprobe"].Hash, "pay", target, d.funder.Hash, int64(5), nil), Signers: []util.Uint160{d.funder.Hash}, Label: gc.Name})
		}
		accepted := o.Halt && (c.Token == "fake" || Same(o.Ret0(), "i1"))
		want := c.Token == "GAS" || (c.Token == "NEO" && c.Target == "alphabet0")
		where["target"], where["token"] = c.Target, c.Token
		if accepted != want {
			vs = append(vs, Viol("payment-acceptance", fmt.Sprintf("%s: accepted=%v (halt=%v %v %q), documented: %v", gc.Name, accepted, o.Halt, o.Stack, o.Fault, want), where))
		}
		out := "payment-refused"
		if accepted {
			out = "payment-accepted"
		}
		return GridResult{Outcome: out, Nontrivial: true, V: vs}
	}
	// ---- emit ----
	where["index"], where["ir"] = c.Index, c.IR
	al := w.Contracts[fmt.Sprintf("alphabet%d", c.Index)].Hash
	proxy := w.Contracts["proxy"].Hash
	cur := root
	do := func(label string, scr []byte, adv uint32, signers ...util.Uint160) Obs {
		o, nn := x.Do(cur, Call{Script: scr, Signers: signers, Adv: adv, Label: label})
		cur = nn
		return o
	}
	var ks []any
	for i := 0; i < c.IR; i++ {
		ks = append(ks, d.ir[i].Pub())
	}
	rm := w.E.NativeHash(w.T, nativenames.Designation)
	if o := do("designate the Inner Ring", Script(rm, "designateAsRole", int64(16), ks), 0, w.Comm); !o.Halt {
		hpanic("designateAsRole: %s", o.Fault)
	}
	if c.G > 0 {
		if o := do("fund the Alphabet contract", Script(w.GasHash, "transfer", d.funder.Hash, al, c.G, nil), 0, d.funder.Hash); !o.Halt || !Same(o.Ret0(), "i1") {
			hpanic("fund alphabet contract: %v %s", o.Stack, o.Fault)
		}
	}
	if c.NEO > 0 {
		if o := do("give the Alphabet contract NEO", Script(w.NeoHash, "transfer", d.funder.Hash, al, c.NEO, nil), 0, d.funder.Hash); !o.Halt || !Same(o.Ret0(), "i1") {
			hpanic("NEO to the alphabet contract: %v %s", o.Stack, o.Fault)
		}
	}
	var signer util.Uint160
	switch c.Signer {
	case "own":
		signer = w.Members[c.Index].Hash
	case "wrapped":
		signer = w.Members[c.Index%4].Hash // the member an index taken modulo the committee size would select
	case "other":
		signer = w.Members[(c.Index+1)%4].Hash
	case "alpha":
		signer = w.Alpha
	case "stranger":
		signer = d.s.Hash
	}
	before := cur
	gasB := func(n *Node, h util.Uint160) int64 { return gasOf(w, n.L, h) }
	pB := gasB(before, proxy)
	var irB []int64
	for i := 0; i < c.IR; i++ {
		irB = append(irB, gasB(before, d.ir[i].Hash))
	}
	if gasB(before, al) != c.G {
		hpanic("alphabet contract holds %d, wanted %d", gasB(before, al), c.G)
	}
	where["neo"] = c.NEO > 0
	supply := func(n *Node) int64 {
		r := w.Read(n.L, n.H, n.TS, w.GasHash, "totalSupply")
		v, _ := AsInt(r.Ret0())
		return v.Int64()
	}
	sB := supply(before)
	wait := c.Wait
	if wait == 0 {
		wait = 1
	}
	o := do("emit", Script(al, "emit"), wait, signer)
	after := cur
	// what the contract has to split: its GAS plus whatever its NEO generated (claimed by emit itself, visible
	// as growth of the GAS supply over this one invocation)
	claimed := supply(after) - sB
	if c.NEO == 0 && claimed != 0 || claimed < 0 {
		hpanic("GAS supply moved by %d over an emit without NEO", claimed)
	}
	c.G += claimed
	wantOK := c.Signer == "own" && c.G >= 2 && c.Index < 4
	// with nothing to split (g < 2) the statement fixes no outcome: floor(1/2) = 0 to everybody is as good as a refusal
	free := c.Signer == "own" && c.Index < 4 && c.G < 2
	if o.Halt != wantOK && !free {
		where["signer"], where["g"] = c.Signer, c.G
		vs = append(vs, Viol("emit-outcome", fmt.Sprintf("%s: halt=%v fault=%q, expected success=%v", gc.Name, o.Halt, o.Fault, wantOK), where))
		return GridResult{Outcome: "emit-wrong-outcome", Nontrivial: true, V: vs}
	}
	if !o.Halt {
		if df := DiffDumps(w.FullDump(before.L), w.FullDump(after.L)); len(df) > 0 || gasB(after, al) != c.G-claimed || gasB(after, proxy) != pB {
			vs = append(vs, Viol("refused-but-changed", fmt.Sprintf("a refused emit moved something: %v", df), where))
		}
		return GridResult{Outcome: "emit-refused", Nontrivial: false, V: vs}
	}
	pg := c.G / 2
	per := (c.G - pg) * 7 / 8 / int64(c.IR)
	if got := gasB(after, proxy) - pB; got != pg {
		where["g"] = c.G
		vs = append(vs, Viol("emit-proxy-share", fmt.Sprintf("g=%d: proxy received %d, expected floor(g/2)=%d", c.G, got, pg), where))
	}
	sum := pg
	for i := 0; i < c.IR; i++ {
		got := gasB(after, d.ir[i].Hash) - irB[i]
		sum += got
		if got != per {
			where["g"], where["node"] = c.G, i
			vs = append(vs, Viol("emit-node-share", fmt.Sprintf("g=%d N=%d: Inner Ring node %d received %d, expected %d", c.G, c.IR, i, got, per), where))
			break
		}
	}
	if rest := gasB(after, al); rest != c.G-pg-per*int64(c.IR) || rest+sum != c.G {
		where["g"] = c.G
		vs = append(vs, Viol("emit-conservation", fmt.Sprintf("g=%d N=%d: contract keeps %d, expected %d; total after %d", c.G, c.IR, rest, c.G-pg-per*int64(c.IR), rest+sum), where))
	}
	return GridResult{Outcome: "emit-ok", Nontrivial: true, V: vs}
}

var _ = neotest.NewSingleSigner
