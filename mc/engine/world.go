// Package engine is the chainmc core: world builder (an in-memory neo-go chain with the
// contracts compiled from the working tree), the layered and the block executors, canonical
// state hashing, the level-synchronous BFS, findings and evidence plumbing, and one driver
// per property.
package engine

import (
	"crypto/sha256"
	"encoding/hex"
	"encoding/json"
	"fmt"
	stdhash "hash"
	"os"
	"path/filepath"
	"slices"
	"sort"
	"sync"
	"testing"
	"time"

	clisc "github.com/nspcc-dev/neo-go/cli/smartcontract"
	"github.com/nspcc-dev/neo-go/pkg/compiler"
	"github.com/nspcc-dev/neo-go/pkg/config"
	"github.com/nspcc-dev/neo-go/pkg/config/netmode"
	"github.com/nspcc-dev/neo-go/pkg/core"
	"github.com/nspcc-dev/neo-go/pkg/core/dao"
	"github.com/nspcc-dev/neo-go/pkg/core/native"
	"github.com/nspcc-dev/neo-go/pkg/core/native/nativenames"
	"github.com/nspcc-dev/neo-go/pkg/core/state"
	"github.com/nspcc-dev/neo-go/pkg/core/storage"
	"github.com/nspcc-dev/neo-go/pkg/crypto/hash"
	"github.com/nspcc-dev/neo-go/pkg/crypto/keys"
	"github.com/nspcc-dev/neo-go/pkg/neotest"
	"github.com/nspcc-dev/neo-go/pkg/smartcontract"
	"github.com/nspcc-dev/neo-go/pkg/smartcontract/manifest"
	"github.com/nspcc-dev/neo-go/pkg/smartcontract/nef"
	"github.com/nspcc-dev/neo-go/pkg/smartcontract/trigger"
	"github.com/nspcc-dev/neo-go/pkg/util"
	"github.com/nspcc-dev/neo-go/pkg/vm/stackitem"
	"github.com/nspcc-dev/neo-go/pkg/vm/vmstate"
	"github.com/nspcc-dev/neo-go/pkg/wallet"
	"go.uber.org/zap"
)

// Repo is the tree the contracts are compiled from (VERIF_REPO overrides /repo).
var Repo = func() string {
	if r := os.Getenv("VERIF_REPO"); r != "" {
		return r
	}
	return "/repo"
}()

// ---------- harness errors and a fake testing.TB so that neotest helpers work from main ----------

// HarnessError is never a property verdict: the binary exits 2 on it.
type HarnessError struct{ Msg string }

func (e HarnessError) Error() string { return "harness: " + e.Msg }

func hpanic(format string, args ...any) { panic(HarnessError{fmt.Sprintf(format, args...)}) }

type fakeT struct {
	testing.TB
	cleanups []func()
}

func (f *fakeT) Helper()                           {}
func (f *fakeT) Name() string                      { return "mc" }
func (f *fakeT) Logf(string, ...any)               {}
func (f *fakeT) Log(...any)                        {}
func (f *fakeT) Errorf(format string, args ...any) { hpanic(format, args...) }
func (f *fakeT) Fatalf(format string, args ...any) { hpanic(format, args...) }
func (f *fakeT) Fatal(args ...any)                 { hpanic("%s", fmt.Sprint(args...)) }
func (f *fakeT) FailNow()                          { hpanic("FailNow") }
func (f *fakeT) Cleanup(fn func())                 { f.cleanups = append(f.cleanups, fn) }

// ---------- compilation from the working tree ----------

type Compiled struct {
	NEF      *nef.File
	Manifest *manifest.Manifest
}

func (c *Compiled) Bytes() (nefB, manB []byte) {
	nb, err := c.NEF.Bytes()
	if err != nil {
		hpanic("nef bytes: %v", err)
	}
	mb, err := json.Marshal(c.Manifest)
	if err != nil {
		hpanic("manifest bytes: %v", err)
	}
	return nb, mb
}

var (
	compMu    sync.Mutex
	compCache = map[string]*Compiled{}
)

// CompileDir compiles contracts/<name> of the given tree with the neo-go compiler library,
// the same way the Makefile's `neo-go contract compile -c config.yml` does.
func CompileDir(repo, name string) *Compiled {
	compMu.Lock()
	defer compMu.Unlock()
	src := filepath.Join(repo, "contracts", name)
	if c, ok := compCache[src]; ok {
		return c
	}
	config.Version = "0.107.0"
	ne, di, err := compiler.CompileWithOptions(src, nil, nil)
	if err != nil {
		hpanic("compile %s: %v", name, err)
	}
	conf, err := clisc.ParseContractConfig(filepath.Join(src, "config.yml"))
	if err != nil {
		hpanic("config %s: %v", name, err)
	}
	o := &compiler.Options{Name: conf.Name, ContractEvents: conf.Events, DeclaredNamedTypes: conf.NamedTypes,
		ContractSupportedStandards: conf.SupportedStandards, SafeMethods: conf.SafeMethods, Overloads: conf.Overloads, SourceURL: conf.SourceURL}
	o.Permissions = make([]manifest.Permission, len(conf.Permissions))
	for i := range conf.Permissions {
		o.Permissions[i] = manifest.Permission(conf.Permissions[i])
	}
	m, err := compiler.CreateManifest(di, o)
	if err != nil {
		hpanic("manifest %s: %v", name, err)
	}
	c := &Compiled{NEF: ne, Manifest: m}
	compCache[src] = c
	return c
}

// CompileSource compiles a probe contract kept as a Go source string in this module. The
// source is materialised under <verif>/mc/probes/<key>/ so that its imports resolve through
// this module's go.mod.
func CompileSource(key, src string, o *compiler.Options) *Compiled {
	compMu.Lock()
	defer compMu.Unlock()
	if c, ok := compCache["src:"+key]; ok {
		return c
	}
	dir := filepath.Join(VerifDir, "mc", "probes", key)
	if err := os.MkdirAll(dir, 0o755); err != nil {
		hpanic("probe dir: %v", err)
	}
	file := filepath.Join(dir, key+".go")
	if old, err := os.ReadFile(file); err != nil || string(old) != src {
		// atomically: another check may be compiling the same probe right now
		tmp := fmt.Sprintf("%s.%d.tmp", file, os.Getpid())
		if err := os.WriteFile(tmp, []byte(src), 0o644); err != nil {
			hpanic("probe file: %v", err)
		}
		if err := os.Rename(tmp, file); err != nil {
			hpanic("probe file: %v", err)
		}
	}
	config.Version = "0.107.0"
	ne, di, err := compiler.CompileWithOptions(file, nil, o)
	if err != nil {
		hpanic("compile probe %s: %v", key, err)
	}
	m, err := compiler.CreateManifest(di, o)
	if err != nil {
		hpanic("manifest probe %s: %v", key, err)
	}
	c := &Compiled{NEF: ne, Manifest: m}
	compCache["src:"+key] = c
	return c
}

// WildPermissions allows a probe to call anything.
func WildPermissions() []manifest.Permission {
	p := manifest.NewPermission(manifest.PermissionWildcard)
	p.Methods = manifest.WildStrings{}
	return []manifest.Permission{*p}
}

// ---------- world ----------

type Deployed struct {
	Name string
	Hash util.Uint160
	ID   int32
}

type Account struct {
	Name string
	Priv *keys.PrivateKey
	Hash util.Uint160
	S    neotest.Signer
}

func (a *Account) Pub() []byte { return a.Priv.PublicKey().Bytes() }

type World struct {
	NoScriptOverride bool // Freeze leaves the deployed executables alone (see ScriptOverride)
	LogReads         bool // keep a digest of every read-back answer (see Read)
	readSum          stdhash.Hash
	T                *fakeT
	N                int
	BC               *core.Blockchain
	E                *neotest.Executor
	Keys             []*keys.PrivateKey
	Pubs             keys.PublicKeys
	Alpha            util.Uint160
	Comm             util.Uint160
	AlphaS           neotest.Signer
	CommS            neotest.Signer
	Validator        neotest.Signer
	Payer            *Account
	Members          []*Account // single-key accounts of the committee keys, in sorted key order
	Accts            map[string]*Account
	Signers          map[util.Uint160]neotest.Signer
	Contracts        map[string]*Deployed
	order            []string
	Root             *dao.Simple
	H                uint32 // index of the first block after Freeze
	TS               uint64 // its default timestamp
	GasHash          util.Uint160
	NeoHash          util.Uint160
	GasID            int32
	NeoID            int32
	// TrackNative lists native-contract storage items that are part of the canonical state
	// (GAS/NEO balances of the accounts a property observes).
	TrackNative []NativeKey
	nonce       uint32
	frozen      bool
}

type NativeKey struct {
	ID  int32
	Key []byte
	Tag string
}

func DetKey(tag byte, i int) *keys.PrivateKey {
	b := make([]byte, 32)
	b[0] = tag
	b[30] = byte(i >> 8)
	b[31] = byte(i + 1)
	k, err := keys.NewPrivateKeyFromBytes(b)
	if err != nil {
		panic(err)
	}
	return k
}

func MsHash(m int, pubs keys.PublicKeys) util.Uint160 {
	s, err := smartcontract.CreateMultiSigRedeemScript(m, pubs.Copy())
	if err != nil {
		panic(err)
	}
	return hash.Hash160(s)
}

func MultiSigner(m int, ks []*keys.PrivateKey, pubs keys.PublicKeys) neotest.Signer {
	accs := make([]*wallet.Account, len(ks))
	for i, k := range ks {
		accs[i] = wallet.NewAccountFromPrivateKey(k)
		if err := accs[i].ConvertMultisig(m, pubs.Copy()); err != nil {
			panic(err)
		}
	}
	return neotest.NewMultiSigner(accs...)
}

// NewWorld creates an in-memory chain whose committee is n deterministic keys.
func NewWorld(n int) *World { return NewWorldOnStore(n, storage.NewMemoryStore()) }

// NewWorldOnStore is NewWorld on a (possibly pre-populated) store.
func NewWorldOnStore(n int, st storage.Store) *World {
	w := &World{T: &fakeT{}, N: n, Contracts: map[string]*Deployed{}, Accts: map[string]*Account{}, Signers: map[util.Uint160]neotest.Signer{}}
	for i := 0; i < n; i++ {
		w.Keys = append(w.Keys, DetKey(0x22, i))
	}
	slices.SortFunc(w.Keys, func(a, b *keys.PrivateKey) int { return a.PublicKey().Cmp(b.PublicKey()) })
	var sc []string
	for _, k := range w.Keys {
		w.Pubs = append(w.Pubs, k.PublicKey())
		sc = append(sc, hex.EncodeToString(k.PublicKey().Bytes()))
	}
	cfg := config.Blockchain{ProtocolConfiguration: config.ProtocolConfiguration{
		Magic: netmode.UnitTestNet, MaxTraceableBlocks: 100000, TimePerBlock: time.Second,
		StandbyCommittee: sc, ValidatorsCount: 1, VerifyTransactions: true,
		MaxValidUntilBlockIncrement: 100000,
	}}
	bc, err := core.NewBlockchain(st, cfg, zap.NewNop())
	if err != nil {
		panic(err)
	}
	go bc.Run()
	w.BC = bc
	w.Validator = MultiSigner(1, w.Keys[:1], w.Pubs[:1])
	w.CommS = MultiSigner(n/2+1, w.Keys, w.Pubs)
	w.AlphaS = MultiSigner(n*2/3+1, w.Keys, w.Pubs)
	w.E = neotest.NewExecutor(w.T, bc, w.Validator, w.CommS)
	w.Alpha = w.AlphaS.ScriptHash()
	w.Comm = w.CommS.ScriptHash()
	w.Signers[w.Alpha] = w.AlphaS
	w.Signers[w.Comm] = w.CommS
	w.Signers[w.Validator.ScriptHash()] = w.Validator
	w.GasHash = w.E.NativeHash(w.T, nativenames.Gas)
	w.NeoHash = w.E.NativeHash(w.T, nativenames.Neo)
	w.GasID = w.E.NativeID(w.T, nativenames.Gas)
	w.NeoID = w.E.NativeID(w.T, nativenames.Neo)
	for _, h := range []util.Uint160{w.Comm, w.Alpha} {
		if h != w.Validator.ScriptHash() {
			w.FundGAS(h, 100000_0000_0000)
		}
	}
	for i, k := range w.Keys {
		a := w.addAccount(fmt.Sprintf("member:%d", i), k)
		w.Members = append(w.Members, a)
	}
	w.Payer = w.Acct("payer")
	w.FundGAS(w.Payer.Hash, 1000000_0000_0000)
	return w
}

func (w *World) addAccount(name string, k *keys.PrivateKey) *Account {
	acc := wallet.NewAccountFromPrivateKey(k)
	s := neotest.NewSingleSigner(acc)
	a := &Account{Name: name, Priv: k, Hash: s.ScriptHash(), S: s}
	w.Accts[name] = a
	w.Signers[a.Hash] = s
	return a
}

// Acct returns (creating on first use) the deterministic single-key account with that name.
func (w *World) Acct(name string) *Account {
	if a, ok := w.Accts[name]; ok {
		return a
	}
	h := sha256.Sum256([]byte("verif-account:" + name))
	h[0] = 0x33
	k, err := keys.NewPrivateKeyFromBytes(h[:])
	if err != nil {
		panic(err)
	}
	return w.addAccount(name, k)
}

func (w *World) FundGAS(h util.Uint160, amount int64) {
	if w.frozen {
		hpanic("FundGAS after Freeze")
	}
	gasI := w.E.ValidatorInvoker(w.GasHash)
	gasI.Invoke(w.T, true, "transfer", w.Validator.ScriptHash(), h, amount, nil)
}

func (w *World) FundNEO(h util.Uint160, amount int64) {
	neoI := w.E.ValidatorInvoker(w.NeoHash)
	neoI.Invoke(w.T, true, "transfer", w.Validator.ScriptHash(), h, amount, nil)
}

func (w *World) Close() { w.BC.Close() }

// Deploy deploys a compiled contract; the sender is the committee account and the Alphabet
// account co-signs (Balance/Container subscribe to Netmap during deployment, which needs it).
func (w *World) Deploy(name string, c *Compiled, data any) *Deployed {
	nb, mb := c.Bytes()
	mgmt := w.E.NativeHash(w.T, nativenames.Management)
	signers := []neotest.Signer{w.CommS}
	if w.Alpha != w.Comm {
		signers = append(signers, w.AlphaS)
	}
	if v := w.Validator.ScriptHash(); v != w.Comm && v != w.Alpha {
		signers = append(signers, w.Validator) // everybody who has a say on the chain signs a deployment
	}
	inv := w.E.NewInvoker(mgmt, signers...)
	tx := inv.PrepareInvoke(w.T, "deploy", nb, mb, data)
	w.E.AddNewBlock(w.T, tx)
	aer := w.E.GetTxExecResult(w.T, tx.Hash())
	if aer.VMState != vmstate.Halt {
		// the deployment carries the committee's and the Alphabet's witness, which is all a contract of this tree asks
		// for while it is deployed (Container registers its TLD in NNS under the committee's witness): see SetupRefused
		ss := []string{"CM"}
		if w.Alpha != w.Comm {
			ss = append(ss, "AL")
		}
		panic(SetupRefused{Contract: name, Method: "(deployment)", Signers: ss, Fault: aer.FaultException, N: w.N})
	}
	h := state.CreateContractHash(w.Comm, c.NEF.Checksum, c.Manifest.Name)
	cs := w.BC.GetContractState(h)
	if cs == nil {
		hpanic("deployed contract not found: %s", name)
	}
	d := &Deployed{Name: name, Hash: h, ID: cs.ID}
	w.Contracts[name] = d
	w.order = append(w.order, name)
	return d
}

// PredictHash tells the hash Deploy will give to c.
func (w *World) PredictHash(c *Compiled) util.Uint160 {
	return state.CreateContractHash(w.Comm, c.NEF.Checksum, c.Manifest.Name)
}

// Invoke sends one real transaction (before Freeze) and requires HALT.
func (w *World) Invoke(h util.Uint160, signers []neotest.Signer, method string, args ...any) []stackitem.Item {
	inv := w.E.NewInvoker(h, signers...)
	tx := inv.PrepareInvoke(w.T, method, args...)
	w.E.AddNewBlock(w.T, tx)
	aer := w.E.GetTxExecResult(w.T, tx.Hash())
	if aer.VMState != vmstate.Halt {
		var ss []string
		for _, sg := range signers {
			ss = append(ss, w.signerName(sg.ScriptHash()))
		}
		panic(SetupRefused{Contract: w.NameOf(h), Method: method, Signers: ss, Fault: aer.FaultException, N: w.N})
	}
	return aer.Stack
}

// SetupRefused: a preparation step (a call carrying exactly the witnesses its documentation
// requires) was refused by the contract. A harness error everywhere except in C03, where
// "the same invocation with exactly the required witnesses succeeds" is the property itself.
type SetupRefused struct {
	Contract, Method string
	Signers          []string
	Fault            string
	N                int
}

func (e SetupRefused) Error() string {
	return fmt.Sprintf("harness: setup invoke %s.%s by %v (committee of %d): %s", e.Contract, e.Method, e.Signers, e.N, e.Fault)
}

func (w *World) signerName(h util.Uint160) string {
	switch h {
	case w.Alpha:
		return "Alphabet 2/3+1 multisig"
	case w.Comm:
		return "committee majority multisig"
	}
	for n, a := range w.Accts {
		if a.Hash == h {
			return n
		}
	}
	return h.StringLE()[:8]
}

// AlphaSigners is the signer list for a setup call that needs the Alphabet witness.
func (w *World) AlphaSigners() []neotest.Signer { return []neotest.Signer{w.AlphaS} }

// RegisterNNS registers <name>.neofs -> hash as the repository's tests do.
func (w *World) RegisterNNS(name string, h util.Uint160) {
	nh := w.Contracts["nns"].Hash
	cs := []neotest.Signer{w.CommS}
	w.Invoke(nh, cs, "register", name+".neofs", w.Comm, "a@b.c", int64(3600), int64(600), int64(3600*24*365*10), int64(3600))
	w.Invoke(nh, cs, "addRecord", name+".neofs", int64(16), h.StringLE())
}

// Freeze takes the root layer; from now on everything is layered (or, in a conformance
// replay, real blocks on top of exactly this chain).
func (w *World) Freeze() {
	ic, err := w.BC.GetTestVM(trigger.Application, nil, nil)
	if err != nil {
		panic(err)
	}
	w.Root = ic.DAO
	tb, err := w.BC.GetBlock(w.BC.GetHeaderHash(w.BC.BlockHeight()))
	if err != nil {
		panic(err)
	}
	w.H = w.BC.BlockHeight() + 1
	w.TS = tb.Timestamp + 1000
	w.frozen = true
	// dual-world mode (C15): the deployed contract keeps its hash, id and storage but runs
	// another executable (the shipped one), so that states of both worlds are comparable
	for name, c := range ScriptOverride {
		d, ok := w.Contracts[name]
		if !ok || w.NoScriptOverride {
			continue
		}
		cs := w.BC.GetContractState(d.Hash)
		if cs == nil {
			hpanic("override: contract %s not found", name)
		}
		cp := *cs
		cp.NEF = *c.NEF
		cp.Manifest = *c.Manifest
		cp.UpdateCounter++
		if err := native.PutContractState(w.Root, &cp); err != nil {
			hpanic("override %s: %v", name, err)
		}
	}
}

// ScriptOverride maps contract names to executables that replace the deployed ones at Freeze.
var ScriptOverride = map[string]*Compiled{}

// updateTarget is the executable a contract is updated to in the upgrade grid: the shipped one in the shipped half
// of the C15 differential, else the one compiled from the sources.
func updateTarget(name string) *Compiled {
	if c, ok := ScriptOverride[name]; ok {
		return c
	}
	return CompileDir(Repo, name)
}

// Track adds the GAS (and optionally NEO) balance of h to the canonical state.
func (w *World) Track(tag string, h util.Uint160, neo bool) {
	key := append([]byte{20}, h.BytesBE()...) // native NEP-17 account prefix
	w.TrackNative = append(w.TrackNative, NativeKey{ID: w.GasID, Key: key, Tag: "gas:" + tag})
	if neo {
		w.TrackNative = append(w.TrackNative, NativeKey{ID: w.NeoID, Key: key, Tag: "neo:" + tag})
	}
}

// TokenAccounts renders every account record of the native GAS and NEO contracts (prefix 20). The layered executor
// charges no fees and mints no block rewards, so between two layers of one path these records move only when a
// contract moves tokens: "moves no tokens" can be judged over all accounts, not only the tracked ones. (Not part
// of the canonical state: on real blocks fees and rewards do move them.)
func (w *World) TokenAccounts(layer *dao.Simple) map[string]string {
	out := map[string]string{}
	for tag, id := range map[string]int32{"gas": w.GasID, "neo": w.NeoID} {
		layer.Seek(id, storage.SeekRange{Prefix: []byte{20}}, func(k, v []byte) bool {
			out[tag+":"+hex.EncodeToString(k)] = hex.EncodeToString(v)
			return true
		})
	}
	return out
}

func (w *World) NameOf(h util.Uint160) string {
	for n, d := range w.Contracts {
		if d.Hash == h {
			return n
		}
	}
	if h == w.GasHash {
		return "GAS"
	}
	if h == w.NeoHash {
		return "NEO"
	}
	return h.StringLE()[:8]
}

// ---------- canonical state ----------

type KV struct{ K, V []byte }

func (w *World) Dump(layer *dao.Simple, name string) []KV {
	d := w.Contracts[name]
	if d == nil {
		hpanic("Dump: unknown contract %s", name)
	}
	return w.DumpID(layer, d.ID)
}

func (w *World) DumpID(layer *dao.Simple, id int32) []KV {
	var out []KV
	layer.Seek(id, storage.SeekRange{}, func(k, v []byte) bool {
		out = append(out, KV{append([]byte{}, k...), append([]byte{}, v...)})
		return true
	})
	return out
}

func (w *World) sortedNames() []string {
	names := append([]string{}, w.order...)
	sort.Strings(names)
	return names
}

// StateHash is the canonical key of a state: every storage item of every deployed
// non-native contract, the tracked native items, and the driver's extra bytes.
func (w *World) StateHash(layer *dao.Simple, extra ...[]byte) [32]byte {
	h := sha256.New()
	var l [4]byte
	for _, n := range w.sortedNames() {
		h.Write([]byte(n))
		h.Write([]byte{0})
		layer.Seek(w.Contracts[n].ID, storage.SeekRange{}, func(k, v []byte) bool {
			l[0], l[1], l[2], l[3] = byte(len(k)), byte(len(k)>>8), byte(len(v)), byte(len(v)>>8)
			h.Write(l[:])
			h.Write(k)
			h.Write(v)
			return true
		})
	}
	for _, nk := range w.TrackNative {
		si := layer.GetStorageItem(nk.ID, nk.Key)
		h.Write([]byte{0xfe, byte(len(si))})
		h.Write(si)
	}
	for _, e := range extra {
		h.Write([]byte{0xff, byte(len(e)), byte(len(e) >> 8)})
		h.Write(e)
	}
	var r [32]byte
	copy(r[:], h.Sum(nil))
	return r
}

// FullDump renders the canonical state for diffs and conformance comparison.
func (w *World) FullDump(layer *dao.Simple) map[string]string {
	out := map[string]string{}
	for _, n := range w.sortedNames() {
		for _, kv := range w.Dump(layer, n) {
			out[n+"/"+hex.EncodeToString(kv.K)] = hex.EncodeToString(kv.V)
		}
	}
	for _, nk := range w.TrackNative {
		if si := layer.GetStorageItem(nk.ID, nk.Key); si != nil {
			out[nk.Tag] = hex.EncodeToString(si)
		}
	}
	return out
}

func DiffDumps(a, b map[string]string) []string {
	var out []string
	for k, v := range a {
		if bv, ok := b[k]; !ok {
			out = append(out, fmt.Sprintf("-%s=%s", k, v))
		} else if bv != v {
			out = append(out, fmt.Sprintf("~%s: %s -> %s", k, v, bv))
		}
	}
	for k, v := range b {
		if _, ok := a[k]; !ok {
			out = append(out, fmt.Sprintf("+%s=%s", k, v))
		}
	}
	sort.Strings(out)
	return out
}

// cloneManifestWithName copies a compiled contract's manifest under another name (the
// deployment procedure does the same to deploy one Alphabet contract per member).
func cloneManifestWithName(c *Compiled, name string) *manifest.Manifest {
	b, err := json.Marshal(c.Manifest)
	if err != nil {
		panic(err)
	}
	m := new(manifest.Manifest)
	if err := json.Unmarshal(b, m); err != nil {
		panic(err)
	}
	m.Name = name
	return m
}
