package engine

import (
	"crypto/sha256"
	"fmt"
	"github.com/nspcc-dev/neo-go/pkg/compiler"
	repocommon "github.com/nspcc-dev/neofs-contract/common"
	"sort"
	"strings"
	"sync"

	"github.com/nspcc-dev/neo-go/pkg/core/native/nativenames"
	"github.com/nspcc-dev/neo-go/pkg/crypto/keys"
	"github.com/nspcc-dev/neo-go/pkg/neotest"
	"github.com/nspcc-dev/neo-go/pkg/util"
	"github.com/nspcc-dev/neo-go/pkg/vm/stackitem"
)

// C03: every mutating method is inert without its required witnesses; safe methods never
// modify state; verify methods accept only Alphabet multi-signatures. One grid per committee
// size: (method row) x (signer set), every case from one prepared base state that holds all
// eleven contracts.

const subFwdSrc = `package subfwd

import (
	"github.com/nspcc-dev/neo-go/pkg/interop"
	"github.com/nspcc-dev/neo-go/pkg/interop/contract"
	"github.com/nspcc-dev/neo-go/pkg/interop/runtime"
)

func NewEpoch(e int) {}

func Subscribe(netmap interop.Hash160) {
	contract.Call(netmap, "subscribeForNewEpoch", contract.All, runtime.GetExecutingScriptHash())
}
`

type authRow struct {
	Contract string
	Method   string
	Args     func(d *AuthGrid, w *World) []any
	// Req lists alternative witness sets (any one suffices); nil = nobody can make it succeed
	// in this state, "any" = no witness needed.
	Req [][]string
	// Kind: "" mutating, "update", "safe", "verify"; "redesignate" = mutating, measured in the
	// block right after the NeoFSAlphabet role went to the auditor key alone
	Kind string
}

type authCase struct {
	Row    int
	Signer string
}

type AuthGrid struct {
	N                   int
	rows                []authRow
	u, s, x, sn, aud, v *Account
	cid, cidPlain       []byte
	blob, blobNew       []byte
	blobPlain           []byte
	audMulti            util.Uint160
	ownerID             []byte
	meta                []byte
	metaSig             []byte
	lockAcc             util.Uint160
	uncovered           []string
}

// effectless collects the methods whose authorised run changed nothing in the base state (reported in the evidence).
var effectless sync.Map

var authSignerSets = []string{"S", "M1", "AL", "CM", "K", "K+AL", "K+CM", "M-minority", "AUD"}

func NewAuthGrid(n int) *AuthGrid { return &AuthGrid{N: n} }
func (d *AuthGrid) Name() string  { return fmt.Sprintf("witnesses-n%d", d.N) }
func (d *AuthGrid) Rule() string {
	return "every method of the eleven manifests compiled from the tree (table rows; manifest methods without a row are listed as uncovered) x signer sets {stranger, one Alphabet member, Alphabet 2/3+1, committee majority, named key(s), named keys+Alphabet, named keys+majority, each of two named keys alone, floor(2n/3) single members, the Inner Ring member outside the committee}; non-trivial = a non-safe method under a signer set; distinct by (method, signer set)"
}

func (d *AuthGrid) Build() *World {
	w := NewWorld(d.N)
	d.u, d.s, d.x, d.sn, d.aud, d.v = w.Acct("U"), w.Acct("S"), w.Acct("X"), w.Acct("sn0"), w.Acct("aud0"), w.Acct("V")
	for _, a := range []*Account{d.u, d.x, d.v} {
		w.FundGAS(a.Hash, 1000*gasUnit)
	}
	al := []neotest.Signer{w.AlphaS}
	cm := []neotest.Signer{w.CommS}
	nns := w.Deploy("nns", compiledFor("nns"), []any{[]any{[]any{"neofs", "ops@x.y"}, []any{"com", "ops@x.y"}}})
	nm := w.Deploy("netmap", compiledFor("netmap"), []any{false, util.Uint160{}, util.Uint160{}, []any{}, []any{[]byte("ContainerFee"), int64(0), []byte("ContainerAliasFee"), int64(0)}})
	w.RegisterNNS("netmap", nm.Hash)
	bal := w.Deploy("balance", compiledFor("balance"), []any{false, util.Uint160{}, util.Uint160{}})
	w.RegisterNNS("balance", bal.Hash)
	id := w.Deploy("neofsid", compiledFor("neofsid"), []any{false})
	w.RegisterNNS("neofsid", id.Hash)
	cnt := w.Deploy("container", compiledFor("container"), []any{int64(0), nm.Hash, bal.Hash, id.Hash, nns.Hash, "container"})
	w.Deploy("reputation", compiledFor("reputation"), []any{false})
	w.Deploy("audit", compiledFor("audit"), []any{false})
	px := w.Deploy("proxy", compiledFor("proxy"), nil)
	ab := w.Deploy("alphabet", compiledFor("alphabet"), []any{false, nm.Hash, px.Hash, "az", int64(0), int64(d.N)})
	var ks []any
	for _, k := range w.Pubs {
		ks = append(ks, k.Bytes())
	}
	pc := compiledFor("processing")
	nf := w.Deploy("neofs", compiledFor("neofs"), []any{false, w.PredictHash(pc), ks, []any{[]byte("InnerRingCandidateFee"), candFee, []byte("WithdrawFee"), int64(7)}})
	w.Deploy("processing", pc, []any{nf.Hash})
	// a contract anybody can deploy that asks Netmap to subscribe it (an Alphabet-only request forwarded by its beneficiary)
	w.Deploy("subfwd", CompileSource("subfwd", subFwdSrc, &compiler.Options{Name: "subfwd", NoEventsCheck: true, NoPermissionsCheck: true, Permissions: WildPermissions()}), nil)
	// ---- a state in which every method has a succeeding argument vector ----
	rm := w.E.NativeHash(w.T, nativenames.Designation)
	w.Invoke(rm, cm, "designateAsRole", int64(16), ks) // Inner Ring / NeoFSAlphabet role: the committee keys
	w.Invoke(w.GasHash, []neotest.Signer{d.u.S}, "transfer", d.u.Hash, ab.Hash, int64(1000), nil)
	// the Alphabet contract holds NEO and the key it is asked to vote for is a registered candidate, so that an
	// authorised vote() has an effect (the NEO account state of the contract changes)
	w.FundNEO(ab.Hash, 10)
	w.FundGAS(w.Members[0].Hash, 2000*gasUnit)
	w.Invoke(w.NeoHash, []neotest.Signer{w.Members[0].S}, "registerCandidate", w.Pubs[0].Bytes())
	w.Invoke(w.GasHash, []neotest.Signer{d.u.S}, "transfer", d.u.Hash, nf.Hash, int64(50*gasUnit), nil)
	w.Invoke(nf.Hash, []neotest.Signer{d.x.S}, "innerRingCandidateAdd", d.x.Pub())
	// storage node: candidate in both lists and member of the previous network map
	info := append(append([]byte{0, 0}, d.sn.Pub()...), 0xAA)
	w.Invoke(nm.Hash, al, "addPeerIR", info)
	w.Invoke(nm.Hash, []neotest.Signer{w.AlphaS, d.sn.S}, "addNode", []any{[]any{"addr"}, stackitem.NewMap(), d.sn.Pub(), int64(1)})
	w.Invoke(nm.Hash, al, "newEpoch", int64(1))
	w.Invoke(nm.Hash, al, "newEpoch", int64(2))
	// user funds, a lock
	w.Invoke(bal.Hash, al, "mint", d.u.Hash, int64(100), []byte("m"))
	d.lockAcc = util.Uint160{0xf1, 0xf1}
	w.Invoke(bal.Hash, al, "lock", []byte("l"), d.u.Hash, d.lockAcc, int64(10), int64(99))
	// a live container with meta flag, eACL and a one-node roster; a second blob not yet put
	d.ownerID = OwnerID(d.u.Hash)
	d.blob, d.cid = mkContainerBlob(d.u.Hash, 1)
	d.blobNew, _ = mkContainerBlob(d.u.Hash, 2)
	key33 := append([]byte{2}, make([]byte, 32)...)
	w.Invoke(cnt.Hash, al, "put", d.blob, []byte("sig"), key33, []byte("tok"), true)
	d.blobPlain, d.cidPlain = mkContainerBlob(d.u.Hash, 3)
	w.Invoke(cnt.Hash, al, "put", d.blobPlain, []byte("sig"), key33, []byte("tok")) // a live container without the meta flag
	w.Invoke(cnt.Hash, al, "addNextEpochNodes", d.cid, int64(0), []any{d.sn.Pub()})
	w.Invoke(cnt.Hash, al, "commitContainerListUpdate", d.cid, []any{int64(1)})
	// ... plus a pending roster for the next epoch and a stored size estimation (state an upgrade must carry over)
	w.Invoke(cnt.Hash, al, "addNextEpochNodes", d.cid, int64(0), []any{d.x.Pub()})
	w.Invoke(cnt.Hash, []neotest.Signer{d.u.S, d.sn.S}, "putContainerSize", int64(1), d.cid, int64(5), d.sn.Pub())
	w.Invoke(id.Hash, al, "addKey", d.ownerID, []any{d.sn.Pub()})
	// a name with a record
	w.FundGAS(d.u.Hash, 100*gasUnit)
	w.Invoke(nns.Hash, []neotest.Signer{d.u.S}, "register", "uu.com", d.u.Hash, "e@x.y", int64(3600), int64(600), int64(100000), int64(3600))
	w.Invoke(nns.Hash, []neotest.Signer{d.u.S}, "addRecord", "uu.com", int64(rtTXT), "t0")
	// ... and a name of U's that has an administrator (V)
	w.Invoke(nns.Hash, []neotest.Signer{d.u.S}, "register", "ww.com", d.u.Hash, "e@x.y", int64(3600), int64(600), int64(100000), int64(3600))
	w.Invoke(nns.Hash, []neotest.Signer{d.u.S, d.v.S}, "setAdmin", "ww.com", d.v.Hash)
	for _, a := range []*Account{d.u, d.x, d.sn, d.v} {
		w.Track(a.Name, a.Hash, false)
	}
	for _, c := range []string{"neofs", "proxy", "alphabet", "processing"} {
		w.Track(c, w.Contracts[c].Hash, true)
	}
	// the majority account of an Inner Ring that consists of the auditor key alone (used by the rows
	// measured right after a re-designation)
	am := MultiSigner(1, []*keys.PrivateKey{d.aud.Priv}, keys.PublicKeys{d.aud.Priv.PublicKey()})
	d.audMulti = am.ScriptHash()
	w.Signers[d.audMulti] = am
	w.Freeze()
	// object meta information signed by the roster member
	m := stackitem.NewMapWithValue([]stackitem.MapElement{
		{Key: stackitem.Make("cid"), Value: stackitem.Make(d.cid)},
		{Key: stackitem.Make("oid"), Value: stackitem.Make(make([]byte, 32))},
		{Key: stackitem.Make("size"), Value: stackitem.Make(7)},
		{Key: stackitem.Make("deleted"), Value: stackitem.Make([]any{})},
		{Key: stackitem.Make("locked"), Value: stackitem.Make([]any{})},
		{Key: stackitem.Make("validuntil"), Value: stackitem.Make(int64(w.H) + 1000)},
		{Key: stackitem.Make("network"), Value: stackitem.Make(int64(w.BC.GetConfig().Magic))},
	})
	d.meta, _ = stackitem.Serialize(m)
	d.metaSig = d.sn.Priv.Sign(d.meta)
	d.rows = authTable()
	// which manifest methods have no row?
	have := map[string]bool{}
	for _, r := range d.rows {
		have[r.Contract+"."+r.Method] = true
	}
	d.uncovered = nil
	for _, c := range []string{"alphabet", "audit", "balance", "container", "neofs", "neofsid", "netmap", "nns", "processing", "proxy", "reputation"} {
		for _, mt := range CompileDir(Repo, c).Manifest.ABI.Methods {
			if strings.HasPrefix(mt.Name, "_") {
				continue
			}
			if !have[c+"."+mt.Name] {
				d.uncovered = append(d.uncovered, c+"."+mt.Name)
			}
		}
	}
	sort.Strings(d.uncovered)
	return w
}

// Extra reports manifest methods that have no table row (reported, never a failure).
func (d *AuthGrid) Extra() map[string]any {
	if d.rows == nil {
		w := d.Build()
		w.Close()
	}
	var el []string
	effectless.Range(func(k, _ any) bool { el = append(el, k.(string)); return true })
	sort.Strings(el)
	return map[string]any{"uncovered_methods": d.uncovered, "table_rows": len(d.rows), "authorised_runs_without_effect": el}
}

func (d *AuthGrid) Cases(string) []GridCase {
	rows := authTable()
	var out []GridCase
	for i, r := range rows {
		sets := authSignerSets
		if r.Kind == "safe" {
			sets = []string{"ALL"}
		}
		if r.Kind == "admin" {
			// the administrator of the (enclosing) name: alone, and together with the second key the row names
			sets = append(append([]string{}, sets...), "ADM", "ADM+K2")
		}
		if r.Kind != "safe" && namesTwoKeys(r) {
			sets = append(append([]string{}, sets...), "K1", "K2") // each of the two named keys alone
		}
		for _, s := range sets {
			out = append(out, GridCase{Name: fmt.Sprintf("%s.%s#%d by %s", r.Contract, r.Method, i, s), Data: authCase{i, s}})
		}
	}
	return out
}

// witnesses resolves a symbolic signer set to accounts; key is the row's named key.
func (d *AuthGrid) witnesses(w *World, set string, keys []util.Uint160) []util.Uint160 {
	var out []util.Uint160
	for _, p := range strings.Split(set, "+") {
		switch p {
		case "S":
			out = append(out, d.s.Hash)
		case "M1":
			// one Alphabet member: the last one, which is never the key a row names (rows name member 0)
			out = append(out, w.Members[len(w.Members)-1].Hash)
		case "AL":
			out = append(out, w.Alpha)
		case "CM":
			out = append(out, w.Comm)
		case "K":
			out = append(out, keys...)
		case "K1":
			if len(keys) > 0 {
				out = append(out, keys[0])
			}
		case "K2":
			if len(keys) > 1 {
				out = append(out, keys[1])
			}
		case "AUD":
			out = append(out, d.aud.Hash)
		case "ADM":
			out = append(out, d.v.Hash)
		case "M-minority":
			for i := 0; i < d.N*2/3; i++ { // one short of the Alphabet threshold, as single keys
				out = append(out, w.Members[i].Hash)
			}
			if len(out) == 0 {
				out = append(out, d.s.Hash)
			}
		case "ALL":
			out = append(out, w.Alpha, w.Comm, d.u.Hash, d.sn.Hash, d.x.Hash, d.aud.Hash, w.Members[0].Hash)
		}
	}
	return out
}

func (d *AuthGrid) resolve(w *World, sym string) []util.Uint160 {
	switch sym {
	case "AL":
		return []util.Uint160{w.Alpha}
	case "CM":
		return []util.Uint160{w.Comm}
	case "U":
		return []util.Uint160{d.u.Hash}
	case "X":
		return []util.Uint160{d.x.Hash}
	case "SN":
		return []util.Uint160{d.sn.Hash}
	case "AUD":
		return []util.Uint160{d.aud.Hash}
	case "V":
		return []util.Uint160{d.v.Hash}
	case "M0":
		return []util.Uint160{w.Members[0].Hash}
	case "AUDM":
		return []util.Uint160{d.audMulti}
	}
	hpanic("C03: unknown witness symbol %s", sym)
	return nil
}

func (d *AuthGrid) Eval(x *Exec, root *Node, gc GridCase) GridResult {
	w := x.W
	c := gc.Data.(authCase)
	r := d.rows[c.Row]
	h := w.Contracts[r.Contract].Hash
	// the row's named keys: every non-multisig witness mentioned in its requirement
	var named []util.Uint160
	seen := map[util.Uint160]bool{}
	for _, alt := range r.Req {
		for _, s := range alt {
			if s == "AL" || s == "CM" || s == "any" {
				continue
			}
			for _, a := range d.resolve(w, s) {
				if !seen[a] {
					seen[a] = true
					named = append(named, a)
				}
			}
		}
	}
	signers := d.witnesses(w, c.Signer, named)
	has := map[util.Uint160]bool{}
	for _, s := range signers {
		has[s] = true
	}
	sufficient := false
	var satisfied []string
	for _, alt := range r.Req {
		ok := true
		for _, s := range alt {
			if s == "any" {
				continue
			}
			for _, a := range d.resolve(w, s) {
				if !has[a] {
					ok = false
				}
			}
		}
		if ok {
			sufficient = true
			satisfied = append(satisfied, strings.Join(alt, "+"))
		}
	}
	where := map[string]any{"n": d.N, "contract": r.Contract, "method": r.Method, "signers": c.Signer}
	if len(r.Req) > 1 && len(satisfied) == 1 {
		where["only_alternative"] = satisfied[0] // which of several documented witness alternatives is the one present
	}
	var vs []*Violation
	var adv uint32
	if strings.HasPrefix(r.Kind, "redesignate") {
		rm := w.E.NativeHash(w.T, nativenames.Designation)
		po, pn := x.Do(root, Call{Script: Script(rm, "designateAsRole", int64(16), []any{d.aud.Pub()}), Signers: []util.Uint160{w.Comm}, Label: "re-designate the Inner Ring"})
		if !po.Halt {
			hpanic("C03 re-designation: %s", po.Fault)
		}
		root = pn
		adv = 1 // the measured call sits in the very next block
	}
	o, after := x.Do(root, Call{Script: Script(h, r.Method, r.Args(d, w)...), Signers: signers, Adv: adv, Label: gc.Name})
	diff := DiffDumps(w.FullDump(root.L), w.FullDump(after.L))
	// "moves no tokens": every GAS and NEO account record of the chain, not only the tracked ones
	diff = append(diff, DiffDumps(w.TokenAccounts(root.L), w.TokenAccounts(after.L))...)
	inert := len(diff) == 0 && len(o.Notifs) == 0
	out := "refused"
	kind := strings.TrimPrefix(strings.TrimPrefix(r.Kind, "redesignate"), "-")
	switch kind {
	case "safe":
		if !inert {
			vs = append(vs, Viol("safe-method-mutates", fmt.Sprintf("%s.%s is declared safe but changed state or notified with all witnesses present: %v %v", r.Contract, r.Method, diff, o.Notifs), where))
		}
		out = "safe"
		if !o.Halt {
			out = "safe-faulted"
			// a method that is declared safe and tries to write or notify is stopped by the VM (the pinned neo-go
			// reports missing call flags): it does not modify state, but it is not the read-only method it is declared to be
			if strings.Contains(o.Fault, "call flags") {
				vs = append(vs, Viol("safe-method-mutates", fmt.Sprintf("%s.%s is declared safe and was stopped while trying to modify state: %s", r.Contract, r.Method, o.Fault), where))
			}
		}
	case "verify":
		got := o.Halt && Same(o.Ret0(), "i1")
		if got != sufficient {
			vs = append(vs, Viol("verify-accepts", fmt.Sprintf("%s.verify() = %v under %s; documented: %v", r.Contract, o.Stack, c.Signer, sufficient), where))
		}
		if !inert {
			vs = append(vs, Viol("safe-method-mutates", fmt.Sprintf("%s.verify changed state", r.Contract), where))
		}
		out = fmt.Sprintf("verify-%v", got)
	case "update":
		// past the authorisation check = stopped by the version gate (the message constant of common/version.go
		// in this tree), or at least by something else than what stops a stranger
		past := !o.Halt && strings.Contains(o.Fault, repocommon.ErrAlreadyUpdated)
		if !o.Halt && !past {
			so, _ := x.Do(root, Call{Script: Script(h, r.Method, r.Args(d, w)...), Signers: []util.Uint160{d.s.Hash}, Adv: adv, Label: gc.Name + " (stranger, for comparison)"})
			past = !so.Halt && faultText(so.Fault) != faultText(o.Fault)
		}
		if !inert || o.Halt && !sufficient {
			vs = append(vs, Viol("effect-without-witness", fmt.Sprintf("%s.update under %s halted=%v, changed state: %v", r.Contract, c.Signer, o.Halt, diff), where))
		} else if past != sufficient {
			if past {
				vs = append(vs, Viol("effect-without-witness", fmt.Sprintf("%s.update under %s got past the authorisation check (stopped only by the version gate)", r.Contract, c.Signer), where))
			} else {
				vs = append(vs, Viol("required-witness-refused", fmt.Sprintf("%s.update with exactly the required witnesses (%s) did not reach the version gate: halt=%v %q", r.Contract, c.Signer, o.Halt, o.Fault), where))
			}
		}
		if past {
			out = "update-authorised"
		}
	default:
		if sufficient {
			if !o.Halt {
				vs = append(vs, Viol("required-witness-refused", fmt.Sprintf("%s.%s with the required witnesses (%s) faults: %s", r.Contract, r.Method, c.Signer, o.Fault), where))
			}
			out = "succeeded"
			if o.Halt && inert {
				// the authorised run itself has no effect in this base state: the "inert without the witnesses" verdicts
				// of this row say little (listed in the evidence, never a failure)
				out = "succeeded-without-effect"
				effectless.Store(r.Contract+"."+r.Method, true)
			}
		} else if !inert {
			vs = append(vs, Viol("effect-without-witness", fmt.Sprintf("%s.%s under %s (required %v): halt=%v, storage diff %v, notifications %v", r.Contract, r.Method, c.Signer, r.Req, o.Halt, diff, o.Notifs), where))
		} else if o.Halt {
			out = "halted-without-effect"
		}
	}
	return GridResult{Outcome: out, Nontrivial: r.Kind != "safe", V: vs}
}

func authTable() []authRow {
	al, cm := [][]string{{"AL"}}, [][]string{{"CM"}}
	k := func(s ...string) [][]string { return [][]string{s} }
	key33 := append([]byte{2}, make([]byte, 32)...)
	sig, tok := []byte("sig"), []byte("tok")
	h32 := func(s string) []byte { h := sha256.Sum256([]byte(s)); return h[:] }
	self := func(c string) func(d *AuthGrid, w *World) []any {
		return func(d *AuthGrid, w *World) []any {
			nb, mb := CompileDir(Repo, c).Bytes()
			return []any{nb, mb, nil}
		}
	}
	none := func(*AuthGrid, *World) []any { return nil }
	rows := []authRow{
		// ---- alphabet ----
		{"alphabet", "emit", none, k("M0"), ""},
		// the Inner Ring is somebody else: still the Alphabet member of the contract's index, not the ring member of that index
		{"alphabet", "emit", none, k("M0"), "redesignate"},
		{"alphabet", "vote", func(d *AuthGrid, w *World) []any { return []any{int64(2), []any{w.Pubs[0].Bytes()}} }, al, ""},
		{"alphabet", "update", self("alphabet"), cm, "update"},
		{"alphabet", "onNEP17Payment", func(d *AuthGrid, w *World) []any { return []any{d.u.Hash, int64(1), nil} }, nil, ""},
		{"alphabet", "verify", none, [][]string{{"AL"}, {"CM"}}, "verify"},
		// ---- audit ----
		{"audit", "put", func(d *AuthGrid, w *World) []any {
			a := &AudDriver{nodes: []*Account{w.Members[0]}, cids: [][]byte{h32("aud-cid")}}
			return []any{a.blob(audOp{e: 5, cid: 0, from: 0})}
		}, k("M0"), ""},
		{Contract: "audit", Method: "put", Args: func(d *AuthGrid, w *World) []any {
			a := &AudDriver{nodes: []*Account{d.aud}, cids: [][]byte{h32("aud-cid")}}
			return []any{a.blob(audOp{e: 5, cid: 0, from: 0})}
		}, Req: k("AUD"), Kind: "redesignate"}, // the block right after the Inner Ring changed: the new member, not a dismissed one
		{Contract: "audit", Method: "put", Args: func(d *AuthGrid, w *World) []any {
			a := &AudDriver{nodes: []*Account{w.Members[0]}, cids: [][]byte{h32("aud-cid")}}
			return []any{a.blob(audOp{e: 5, cid: 0, from: 0})}
		}, Req: nil, Kind: "redesignate"},
		{"audit", "update", self("audit"), cm, "update"},
		// ---- balance ----
		{"balance", "mint", func(d *AuthGrid, w *World) []any { return []any{d.u.Hash, int64(5), []byte("m")} }, al, ""},
		{"balance", "burn", func(d *AuthGrid, w *World) []any { return []any{d.u.Hash, int64(5), []byte("b")} }, al, ""},
		{"balance", "lock", func(d *AuthGrid, w *World) []any {
			return []any{[]byte("l2"), d.u.Hash, util.Uint160{0xf2, 0xf2}, int64(5), int64(50)}
		}, al, ""},
		{"balance", "newEpoch", func(d *AuthGrid, w *World) []any { return []any{int64(100)} }, al, ""},
		// documented: "It can be invoked by the account owner or by Alphabet nodes"
		{"balance", "transferX", func(d *AuthGrid, w *World) []any { return []any{d.u.Hash, d.s.Hash, int64(5), []byte("x")} }, [][]string{{"AL"}, {"U"}}, ""},
		{"balance", "transfer", func(d *AuthGrid, w *World) []any { return []any{d.u.Hash, d.s.Hash, int64(5), nil} }, k("U"), ""},
		{"balance", "update", self("balance"), cm, "update"},
		// ---- container ----
		{"container", "put", func(d *AuthGrid, w *World) []any { return []any{d.blobNew, sig, key33, tok} }, al, ""},
		{"container", "put", func(d *AuthGrid, w *World) []any { return []any{d.blobNew, sig, key33, tok, true} }, al, ""},
		{"container", "put", func(d *AuthGrid, w *World) []any { return []any{d.blobPlain, sig, key33, tok, true} }, al, ""}, // re-put of a live container, now asking for the meta flag
		{"container", "putNamed", func(d *AuthGrid, w *World) []any { return []any{d.blobNew, sig, key33, tok, "nice", ""} }, al, ""},
		{"container", "putNamed", func(d *AuthGrid, w *World) []any { return []any{d.blob, sig, key33, tok, "", ""} }, al, ""},
		{"container", "delete", func(d *AuthGrid, w *World) []any { return []any{d.cid, sig, tok} }, al, ""},
		{"container", "setEACL", func(d *AuthGrid, w *World) []any {
			b := make([]byte, 2+4+32+4)
			copy(b[6:], d.cid)
			return []any{b, sig, key33, tok}
		}, al, ""},
		{"container", "addNextEpochNodes", func(d *AuthGrid, w *World) []any { return []any{d.cid, int64(0), []any{key33}} }, al, ""},
		{"container", "commitContainerListUpdate", func(d *AuthGrid, w *World) []any { return []any{d.cid, []any{int64(1)}} }, al, ""},
		{"container", "newEpoch", func(d *AuthGrid, w *World) []any { return []any{int64(50)} }, al, ""},
		{"container", "startContainerEstimation", func(d *AuthGrid, w *World) []any { return []any{int64(3)} }, al, ""},
		{"container", "stopContainerEstimation", func(d *AuthGrid, w *World) []any { return []any{int64(3)} }, al, ""},
		{"container", "putContainerSize", func(d *AuthGrid, w *World) []any { return []any{int64(2), d.cid, int64(10), d.sn.Pub()} }, k("SN"), ""},
		{"container", "submitObjectPut", func(d *AuthGrid, w *World) []any { return []any{d.meta, []any{[]any{d.metaSig}}} }, k("any"), ""},
		{"container", "onNEP11Payment", func(d *AuthGrid, w *World) []any { return []any{d.u.Hash, int64(1), []byte("t"), nil} }, k("any"), ""},
		{"container", "update", self("container"), cm, "update"},
		// ---- neofs (Notary mode; the stored Alphabet is the committee) ----
		{"neofs", "alphabetUpdate", func(d *AuthGrid, w *World) []any {
			var ks []any
			for i := len(w.Pubs) - 1; i >= 0; i-- {
				ks = append(ks, w.Pubs[i].Bytes())
			}
			return []any{[]byte("id"), ks}
		}, al, ""},
		{"neofs", "cheque", func(d *AuthGrid, w *World) []any { return []any{[]byte("id"), d.u.Hash, int64(3), []byte("l")} }, al, ""},
		{"neofs", "setConfig", func(d *AuthGrid, w *World) []any { return []any{[]byte("id"), []byte("k"), []byte("v")} }, al, ""},
		{"neofs", "bind", func(d *AuthGrid, w *World) []any { return []any{d.u.Hash, []any{key33}} }, k("U"), ""},
		{"neofs", "unbind", func(d *AuthGrid, w *World) []any { return []any{d.u.Hash, []any{key33}} }, k("U"), ""},
		{"neofs", "withdraw", func(d *AuthGrid, w *World) []any { return []any{d.u.Hash, int64(1)} }, k("U"), ""},
		{"neofs", "innerRingCandidateAdd", func(d *AuthGrid, w *World) []any { return []any{d.v.Pub()} }, k("V"), ""},
		{"neofs", "innerRingCandidateRemove", func(d *AuthGrid, w *World) []any { return []any{d.x.Pub()} }, [][]string{{"X"}, {"AL"}}, ""},
		{"neofs", "onNEP17Payment", func(d *AuthGrid, w *World) []any { return []any{d.u.Hash, int64(1), nil} }, nil, ""},
		{"neofs", "update", self("neofs"), cm, "update"},
		// ---- neofsid ----
		{"neofsid", "addKey", func(d *AuthGrid, w *World) []any { return []any{d.ownerID, []any{key33}} }, al, ""},
		{"neofsid", "removeKey", func(d *AuthGrid, w *World) []any { return []any{d.ownerID, []any{d.sn.Pub()}} }, al, ""},
		{"neofsid", "update", self("neofsid"), cm, "update"},
		// ---- netmap ----
		{"netmap", "addPeerIR", func(d *AuthGrid, w *World) []any { return []any{append(append([]byte{0, 0}, d.sn.Pub()...), 0xBB)} }, al, ""},
		{"netmap", "addPeer", func(d *AuthGrid, w *World) []any { return []any{append(append([]byte{0, 0}, d.sn.Pub()...), 0xBB)} }, k("SN", "AL"), ""},
		{"netmap", "addNode", func(d *AuthGrid, w *World) []any {
			return []any{[]any{[]any{"addr2"}, stackitem.NewMap(), d.sn.Pub(), int64(1)}}
		}, k("SN", "AL"), ""},
		{"netmap", "updateState", func(d *AuthGrid, w *World) []any { return []any{int64(3), d.sn.Pub()} }, k("SN", "AL"), ""},
		{"netmap", "updateStateIR", func(d *AuthGrid, w *World) []any { return []any{int64(3), d.sn.Pub()} }, al, ""},
		{"netmap", "deleteNode", func(d *AuthGrid, w *World) []any { return []any{d.sn.Pub()} }, al, ""},
		{"netmap", "newEpoch", func(d *AuthGrid, w *World) []any { return []any{int64(3)} }, al, ""},
		{"netmap", "setConfig", func(d *AuthGrid, w *World) []any { return []any{[]byte("id"), []byte("k"), []byte("v")} }, al, ""},
		{"netmap", "subscribeForNewEpoch", func(d *AuthGrid, w *World) []any { return []any{w.Contracts["reputation"].Hash} }, nil, ""}, // no newEpoch method there: always refused
		{"netmap", "subscribeForNewEpoch", func(d *AuthGrid, w *World) []any { return []any{w.Contracts["balance"].Hash} }, al, ""},     // already subscribed: succeeds as a no-op
		{"subfwd", "subscribe", func(d *AuthGrid, w *World) []any { return []any{w.Contracts["netmap"].Hash} }, al, ""},                 // subscribeForNewEpoch(caller) called by the subscriber itself
		{"netmap", "updateSnapshotCount", func(d *AuthGrid, w *World) []any { return []any{int64(5)} }, al, ""},
		{"netmap", "lastEpochBlock", none, k("any"), "safe"},
		{"netmap", "update", self("netmap"), cm, "update"},
		// ---- nns ----
		{"nns", "addRecord", func(d *AuthGrid, w *World) []any { return []any{"uu.com", int64(rtTXT), "t1"} }, k("U"), ""},
		{"nns", "setRecord", func(d *AuthGrid, w *World) []any { return []any{"uu.com", int64(rtTXT), int64(0), "t2"} }, k("U"), ""},
		{"nns", "deleteRecords", func(d *AuthGrid, w *World) []any { return []any{"uu.com", int64(rtTXT)} }, k("U"), ""},
		{"nns", "updateSOA", func(d *AuthGrid, w *World) []any {
			return []any{"uu.com", "n@x.y", int64(1), int64(2), int64(3), int64(4)}
		}, k("U"), ""},
		{"nns", "renew", func(d *AuthGrid, w *World) []any { return []any{"uu.com"} }, k("U"), ""},
		{"nns", "renew", func(d *AuthGrid, w *World) []any { return []any{"uu.com", int64(2)} }, k("U"), ""},
		{"nns", "setAdmin", func(d *AuthGrid, w *World) []any { return []any{"uu.com", d.x.Hash} }, k("U", "X"), ""},
		{"nns", "transfer", func(d *AuthGrid, w *World) []any { return []any{d.x.Hash, "uu.com", nil} }, k("U"), ""},
		{"nns", "transfer", func(d *AuthGrid, w *World) []any { return []any{d.u.Hash, "uu.com", nil} }, k("U"), ""}, // to the current owner itself
		{"nns", "register", func(d *AuthGrid, w *World) []any {
			return []any{"vv.com", d.u.Hash, "e@x.y", int64(1), int64(2), int64(100000), int64(4)}
		}, k("U"), ""},
		{"nns", "register", func(d *AuthGrid, w *World) []any {
			return []any{"s.uu.com", d.x.Hash, "e@x.y", int64(1), int64(2), int64(100000), int64(4)}
		}, k("U", "X"), ""},
		// a sub-name for the parent's owner, who is the owner named in the arguments: the parent's administrator may
		// register sub-names, but not on behalf of an owner who does not sign
		{"nns", "register", func(d *AuthGrid, w *World) []any {
			return []any{"s.ww.com", d.u.Hash, "e@x.y", int64(1), int64(2), int64(100000), int64(4)}
		}, k("U"), "admin"},
		{"nns", "register", func(d *AuthGrid, w *World) []any {
			return []any{"s.ww.com", d.x.Hash, "e@x.y", int64(1), int64(2), int64(100000), int64(4)}
		}, [][]string{{"U", "X"}, {"V", "X"}}, ""},
		// appointing or dismissing an administrator is the owner's business, not the current administrator's
		{"nns", "setAdmin", func(d *AuthGrid, w *World) []any { return []any{"ww.com", d.x.Hash} }, k("U", "X"), "admin"},
		{"nns", "setAdmin", func(d *AuthGrid, w *World) []any { return []any{"ww.com", nil} }, k("U"), "admin"},
		{"nns", "registerTLD", func(d *AuthGrid, w *World) []any {
			return []any{"org", "e@x.y", int64(1), int64(2), int64(100000), int64(4)}
		}, cm, ""},
		{"nns", "setPrice", func(d *AuthGrid, w *World) []any { return []any{int64(5)} }, cm, ""},
		{"nns", "addRecord", func(d *AuthGrid, w *World) []any { return []any{"netmap.neofs", int64(rtTXT), "t1"} }, cm, ""}, // committee-owned name
		{"nns", "update", self("nns"), cm, "update"},
		// ---- processing / proxy / reputation ----
		{"processing", "update", self("processing"), cm, "update"}, // majority of the designated NeoFSAlphabet keys (= the committee here)
		{"processing", "onNEP17Payment", func(d *AuthGrid, w *World) []any { return []any{d.u.Hash, int64(1), nil} }, nil, ""},
		{"processing", "update", self("processing"), k("AUDM"), "redesignate-update"}, // the block right after the NeoFSAlphabet role changed hands
		{"neofs", "update", self("neofs"), k("AUDM"), "redesignate-update"},
		{"processing", "verify", none, al, "verify"},
		{"proxy", "update", self("proxy"), cm, "update"},
		{"proxy", "onNEP17Payment", func(d *AuthGrid, w *World) []any { return []any{d.u.Hash, int64(1), nil} }, nil, ""},
		{"proxy", "verify", none, [][]string{{"AL"}, {"CM"}}, "verify"},
		{"reputation", "put", func(d *AuthGrid, w *World) []any { return []any{int64(5), key33, []byte("v")} }, al, ""},
		{"reputation", "update", self("reputation"), cm, "update"},
		{"reputation", "version", none, k("any"), "safe"},
	}
	// every method the manifests declare safe, called with all witnesses, must change nothing
	safe := map[string][][]any{
		"alphabet":   {{"gas"}, {"neo"}, {"name"}, {"version"}},
		"audit":      {{"list"}, {"listByEpoch", int64(1)}, {"version"}},
		"balance":    {{"balanceOf", util.Uint160{1}}, {"decimals"}, {"symbol"}, {"totalSupply"}, {"version"}},
		"container":  {{"count"}, {"list", []byte{}}, {"containersOf", []byte{}}, {"listContainerSizes", int64(2)}, {"iterateAllContainerSizes", int64(2)}, {"version"}},
		"neofs":      {{"alphabetAddress"}, {"alphabetList"}, {"innerRingCandidates"}, {"listConfig"}, {"config", []byte("WithdrawFee")}, {"version"}},
		"neofsid":    {{"version"}},
		"netmap":     {{"epoch"}, {"innerRingList"}, {"listCandidates"}, {"listConfig"}, {"listNodes"}, {"listNodes", int64(1)}, {"netmap"}, {"netmapCandidates"}, {"snapshot", int64(0)}, {"snapshotByEpoch", int64(1)}, {"config", []byte("ContainerFee")}, {"version"}},
		"nns":        {{"decimals"}, {"getPrice"}, {"roots"}, {"symbol"}, {"tokens"}, {"totalSupply"}, {"version"}, {"isAvailable", "qq.com"}, {"ownerOf", []byte("uu.com")}, {"properties", []byte("uu.com")}, {"getRecords", "uu.com", int64(16)}, {"getAllRecords", "uu.com"}, {"resolve", "uu.com", int64(16)}, {"balanceOf", util.Uint160{1}}, {"tokensOf", util.Uint160{1}}},
		"processing": {{"version"}},
		"proxy":      {{"version"}},
		"reputation": {{"get", int64(1), []byte("p")}, {"getByID", []byte("p")}, {"listByEpoch", int64(1)}},
	}
	var cs []string
	for c := range safe {
		cs = append(cs, c)
	}
	sort.Strings(cs)
	for _, c := range cs {
		for _, call := range safe[c] {
			call := call
			rows = append(rows, authRow{c, call[0].(string), func(*AuthGrid, *World) []any { return call[1:] }, k("any"), "safe"})
		}
	}
	// safe getters that need the prepared objects
	rows = append(rows,
		authRow{"container", "get", func(d *AuthGrid, w *World) []any { return []any{d.cid} }, k("any"), "safe"},
		authRow{"container", "owner", func(d *AuthGrid, w *World) []any { return []any{d.cid} }, k("any"), "safe"},
		authRow{"container", "alias", func(d *AuthGrid, w *World) []any { return []any{d.cid} }, k("any"), "safe"},
		authRow{"container", "eACL", func(d *AuthGrid, w *World) []any { return []any{d.cid} }, k("any"), "safe"},
		authRow{"container", "nodes", func(d *AuthGrid, w *World) []any { return []any{d.cid, int64(0)} }, k("any"), "safe"},
		authRow{"container", "replicasNumbers", func(d *AuthGrid, w *World) []any { return []any{d.cid} }, k("any"), "safe"},
		authRow{"container", "iterateContainerSizes", func(d *AuthGrid, w *World) []any { return []any{int64(2), d.cid} }, k("any"), "safe"},
		authRow{"container", "getContainerSize", func(d *AuthGrid, w *World) []any {
			return []any{append(append([]byte("cnr"), 2), d.cid...)}
		}, k("any"), "safe"},
		authRow{"container", "verifyPlacementSignatures", func(d *AuthGrid, w *World) []any {
			return []any{d.cid, d.meta, []any{[]any{d.metaSig}}}
		}, k("any"), "safe"},
		authRow{"neofsid", "key", func(d *AuthGrid, w *World) []any { return []any{d.ownerID} }, k("any"), "safe"},
		authRow{"audit", "get", func(d *AuthGrid, w *World) []any { return []any{[]byte("id")} }, k("any"), "safe"},
		authRow{"audit", "listByCID", func(d *AuthGrid, w *World) []any { return []any{int64(1), d.cid} }, k("any"), "safe"},
		authRow{"audit", "listByNode", func(d *AuthGrid, w *World) []any { return []any{int64(1), d.cid, key33} }, k("any"), "safe"},
	)
	return rows
}

// ---------- C03b: the same rows under varied arguments, without the required witnesses ----------

// AuthArgGrid re-runs every mutating row that needs a witness with one argument at a time replaced
// by a boundary value (Null for any type; integers -1, 0, 1, 2^40; byte strings empty and one byte short; strings
// empty; booleans flipped; arrays emptied), signed by a stranger or by one member short of the
// Alphabet threshold: whatever the arguments are, such a call must be inert.
type AuthArgGrid struct {
	*AuthGrid
}

type authArgCase struct {
	Row, Arg, Val int
	Signer        string
}

func NewAuthArgGrid(n int) *AuthArgGrid { return &AuthArgGrid{NewAuthGrid(n)} }
func (d *AuthArgGrid) Name() string     { return fmt.Sprintf("witnessless-arguments-n%d", d.N) }
func (d *AuthArgGrid) Rule() string {
	return "every mutating table row that requires a witness x one argument position replaced by a boundary value of its type x {stranger, floor(2n/3) single members}; non-trivial = the position exists and the value differs from the row's own; distinct by (row, position, value, signer set)"
}
func (d *AuthArgGrid) Extra() map[string]any { return nil }

func (d *AuthArgGrid) Cases(string) []GridCase {
	var out []GridCase
	for i, r := range authTable() {
		if r.Kind != "" && r.Kind != "redesignate" {
			continue
		}
		if needsNoWitness(r) {
			continue
		}
		for a := 0; a < 8; a++ {
			for v := 0; v < 5; v++ {
				for _, s := range []string{"S", "M-minority"} {
					out = append(out, GridCase{Name: fmt.Sprintf("%s.%s#%d arg%d:=alt%d by %s", r.Contract, r.Method, i, a, v, s), Data: authArgCase{i, a, v, s}})
				}
			}
		}
	}
	return out
}

// namesTwoKeys: some alternative of the row's requirement names two or more single keys.
func namesTwoKeys(r authRow) bool {
	for _, alt := range r.Req {
		k := 0
		for _, s := range alt {
			if s != "AL" && s != "CM" && s != "any" {
				k++
			}
		}
		if k >= 2 {
			return true
		}
	}
	return false
}

func needsNoWitness(r authRow) bool {
	for _, alt := range r.Req {
		free := true
		for _, s := range alt {
			if s != "any" {
				free = false
			}
		}
		if free {
			return true
		}
	}
	return false
}

// altValue returns the v-th boundary value for an argument of a's type (ok=false: none).
func altValue(a any, v int) (any, bool) {
	if v == 4 {
		// Null in place of anything (a type no caller's tooling would send, but any script can)
		if a == nil {
			return nil, false
		}
		return nil, true
	}
	switch t := a.(type) {
	case int64:
		return []int64{-1, 0, 1, 1 << 40}[v], true
	case int:
		return []int64{-1, 0, 1, 1 << 40}[v], true
	case []byte:
		switch v {
		case 0:
			return []byte{}, true
		case 1:
			if len(t) > 1 {
				return append([]byte{}, t[:len(t)-1]...), true
			}
		}
	case string:
		if v == 0 {
			return "", true
		}
	case bool:
		if v == 0 {
			return !t, true
		}
	case []any:
		if v == 0 {
			return []any{}, true
		}
	case util.Uint160:
		if v == 0 {
			return []byte{}, true
		}
	}
	return nil, false
}

func (d *AuthArgGrid) Eval(x *Exec, root *Node, gc GridCase) GridResult {
	w := x.W
	c := gc.Data.(authArgCase)
	r := d.rows[c.Row]
	args := append([]any{}, r.Args(d.AuthGrid, w)...)
	if c.Arg >= len(args) {
		return GridResult{Outcome: "no-such-position"}
	}
	alt, ok := altValue(args[c.Arg], c.Val)
	if !ok || fmt.Sprint(alt) == fmt.Sprint(args[c.Arg]) {
		return GridResult{Outcome: "no-such-value"}
	}
	args[c.Arg] = alt
	h := w.Contracts[r.Contract].Hash
	signers := d.witnesses(w, c.Signer, nil)
	// a minority that happens to contain a key the row names is not "without the required witnesses"
	has := map[util.Uint160]bool{}
	for _, s := range signers {
		has[s] = true
	}
	for _, altReq := range r.Req {
		ok := true
		for _, s := range altReq {
			if s == "any" {
				continue
			}
			for _, a := range d.resolve(w, s) {
				if !has[a] {
					ok = false
				}
			}
		}
		if ok {
			return GridResult{Outcome: "signer-set-sufficient"}
		}
	}
	var adv uint32
	if r.Kind == "redesignate" {
		rm := w.E.NativeHash(w.T, nativenames.Designation)
		po, pn := x.Do(root, Call{Script: Script(rm, "designateAsRole", int64(16), []any{d.aud.Pub()}), Signers: []util.Uint160{w.Comm}, Label: "re-designate the Inner Ring"})
		if !po.Halt {
			hpanic("C03 re-designation: %s", po.Fault)
		}
		root = pn
		adv = 1
	}
	o, after := x.Do(root, Call{Script: Script(h, r.Method, args...), Signers: signers, Adv: adv, Label: gc.Name})
	diff := DiffDumps(w.FullDump(root.L), w.FullDump(after.L))
	diff = append(diff, DiffDumps(w.TokenAccounts(root.L), w.TokenAccounts(after.L))...)
	out := "refused"
	if o.Halt {
		out = "halted-without-effect"
	}
	var vs []*Violation
	if len(diff) > 0 || len(o.Notifs) > 0 {
		where := map[string]any{"n": d.N, "contract": r.Contract, "method": r.Method, "signers": c.Signer, "argument": c.Arg}
		vs = append(vs, Viol("effect-without-witness", fmt.Sprintf("%s.%s with argument %d := %v under %s (required %v): halt=%v, storage diff %v, notifications %v", r.Contract, r.Method, c.Arg, alt, c.Signer, r.Req, o.Halt, diff, o.Notifs), where))
	}
	return GridResult{Outcome: out, Nontrivial: true, V: vs}
}
