package engine

import (
	"bytes"
	"crypto/sha256"
	"encoding/binary"
	"fmt"
	"math/big"
	"sort"
	"strings"

	"github.com/nspcc-dev/neo-go/pkg/core/native/nativenames"
	"github.com/nspcc-dev/neo-go/pkg/crypto/hash"
	"github.com/nspcc-dev/neo-go/pkg/neotest"
	"github.com/nspcc-dev/neo-go/pkg/util"
	"github.com/nspcc-dev/neo-go/pkg/vm/stackitem"
)

// C20: epoch-keyed, per-owner and configuration stores return exactly what was put.
// Five small BFS drivers with multiset/map models; after every step ALL reads for ALL
// (epoch, container, node, owner, key) combinations of the menu are compared.

var c20Epochs = []int64{0, 1, 127, 128, 255, 256, 257, 65535, 65536}

func leInt(e int64) []byte {
	b, _ := stackitem.NewBigInteger(big.NewInt(e)).TryBytes()
	return b
}

// properPrefixEpoch: is LE(a) a proper byte-prefix of LE(b)? (the shape of the known defect)
func properPrefixEpoch(a, b int64) bool {
	x, y := leInt(a), leInt(b)
	return len(x) < len(y) && string(y[:len(x)]) == string(x)
}

// supersetExplained checks got against want: missing elements or extras not explained by an
// epoch-prefix relation are violations; explained extras are the known finding.
func supersetExplained(got, want []string, explained func(extra string) bool) (missing, unexplained, explainedExtra []string) {
	ws := map[string]bool{}
	for _, w := range want {
		ws[w] = true
	}
	gs := map[string]bool{}
	for _, g := range got {
		gs[g] = true
		if !ws[g] {
			if explained(g) {
				explainedExtra = append(explainedExtra, g)
			} else {
				unexplained = append(unexplained, g)
			}
		}
	}
	for _, w := range want {
		if !gs[w] {
			missing = append(missing, w)
		}
	}
	return
}

func strList(v any) []string {
	var out []string
	if l, ok := v.([]any); ok {
		for _, e := range l {
			out = append(out, fmt.Sprint(e))
		}
	}
	sort.Strings(out)
	return out
}

// genericModel: a sorted-string rendering of a map model, enough for Clone/Key.
type kvModel struct {
	m     map[string][]string
	epoch int64
}

func (m *kvModel) Clone() Model {
	c := &kvModel{m: map[string][]string{}, epoch: m.epoch}
	for k, v := range m.m {
		c.m[k] = append([]string{}, v...)
	}
	return c
}
func (m *kvModel) Key() []byte { return nil }

// ---------- reputation ----------

type repOp struct {
	e      int64
	peer   int
	val    string
	signer string
	bulk   int // if > 0: that many puts of distinct values, one after the other
}

type RepDriver struct {
	ops   []repOp
	peers [][]byte
	eps   []int64
}

func NewRepDriver(tier string) *RepDriver {
	d := &RepDriver{eps: c20Epochs}
	for i := 0; i < 2; i++ {
		d.peers = append(d.peers, DetKey(0x61, i).PublicKey().Bytes())
	}
	for _, e := range d.eps {
		for p := range d.peers {
			for _, v := range []string{"va", "vb"} {
				if tier != "thorough" && v == "vb" && p == 1 {
					continue
				}
				d.ops = append(d.ops, repOp{e: e, peer: p, val: v, signer: "C"})
			}
		}
	}
	d.ops = append(d.ops, repOp{e: 1, peer: 0, val: "va", signer: "S"})
	// two more 33-byte peers, crafted so that the id of (epoch 0, peer 2) is a proper byte-prefix of the id of
	// (epoch 2, peer 3): 02||Q and Q||07 with Q starting with 03 - both look like compressed keys
	q := append([]byte{0x03}, bytes.Repeat([]byte{0x5a}, 31)...)
	d.peers = append(d.peers, append([]byte{0x02}, q...), append(append([]byte{}, q...), 0x07))
	d.eps = append(append([]int64{}, d.eps...), 2)
	d.ops = append(d.ops, repOp{e: 0, peer: 2, val: "vc", signer: "C"}, repOp{e: 2, peer: 3, val: "vd", signer: "C"}, repOp{e: 2, peer: 2, val: "ve", signer: "C"})
	// many values for one (epoch, peer): the running number that keeps them apart outgrows one byte at 128
	d.ops = append(d.ops, repOp{e: 1, peer: 1, val: "w", signer: "C", bulk: 130})
	return d
}
func (d *RepDriver) Build() *World {
	w := NewWorld(1)
	w.Deploy("reputation", CompileDir(Repo, "reputation"), []any{false})
	w.Acct("S")
	w.Freeze()
	return w
}
func (d *RepDriver) Init(*World) Model { return &kvModel{m: map[string][]string{}} }
func (d *RepDriver) NumOps() int       { return len(d.ops) }
func (d *RepDriver) OpName(_ *Node, i int) string {
	o := d.ops[i]
	if o.bulk > 0 {
		return fmt.Sprintf("%d x reputation.put(epoch %d, peer %d, %s<k>) by %s", o.bulk, o.e, o.peer, o.val, o.signer)
	}
	return fmt.Sprintf("reputation.put(epoch %d, peer %d, %s) by %s", o.e, o.peer, o.val, o.signer)
}
func (d *RepDriver) Enabled(n *Node, i int) bool {
	return d.ops[i].bulk == 0 || len(n.M.(*kvModel).m["bulk"]) == 0
}
func (d *RepDriver) Step(x *Exec, n *Node, i int) StepResult {
	w := x.W
	m := n.M.(*kvModel)
	nm := m.Clone().(*kvModel)
	o := d.ops[i]
	h := w.Contracts["reputation"].Hash
	where := map[string]any{"contract": "reputation"}
	viol := func(class, msg string) StepResult {
		return StepResult{V: Viol(class, msg, where), Outcome: "violation"}
	}
	signer := w.Alpha
	if o.signer == "S" {
		signer = w.Acct("S").Hash
	}
	k := fmt.Sprintf("%d/%d", o.e, o.peer)
	vals := []string{o.val}
	if o.bulk > 0 {
		vals = nil
		for j := 0; j < o.bulk; j++ {
			vals = append(vals, fmt.Sprintf("%s%03d", o.val, j))
		}
		nm.m["bulk"] = []string{"done"}
	}
	var obs Obs
	nn := n
	for _, v := range vals[:len(vals)-1] {
		if ob, n2 := x.Do(nn, Call{Script: Script(h, "put", o.e, d.peers[o.peer], []byte(v)), Signers: []util.Uint160{signer}, Label: "reputation.put " + v}); !ob.Halt {
			return viol("outcome", fmt.Sprintf("put of value %s: halt=%v fault=%q", v, ob.Halt, ob.Fault))
		} else {
			nn = n2
		}
		nm.m[k] = append(nm.m[k], v)
	}
	o.val = vals[len(vals)-1]
	prev := nn
	obs, nn = x.Do(prev, Call{Script: Script(h, "put", o.e, d.peers[o.peer], []byte(o.val)), Signers: []util.Uint160{signer}, Label: d.OpName(n, i)})
	if obs.Halt != (o.signer == "C") {
		return viol("outcome", fmt.Sprintf("halt=%v fault=%q", obs.Halt, obs.Fault))
	}
	if !obs.Halt {
		if len(DiffDumps(w.FullDump(n.L), w.FullDump(nn.L))) > 0 {
			return viol("refused-but-changed", "")
		}
		nn.M = m
		return StepResult{Next: nn, Outcome: "FAULT"}
	}
	nm.m[k] = append(nm.m[k], o.val)
	var soft []*Violation
	for _, e := range d.eps {
		var wantIDs []string
		for p := range d.peers {
			vals := nm.m[fmt.Sprintf("%d/%d", e, p)]
			var want []any
			for _, v := range vals {
				want = append(want, NXs(v))
			}
			id := append(leInt(e), d.peers[p]...)
			if len(vals) > 0 {
				wantIDs = append(wantIDs, fmt.Sprint(NX(id)))
			}
			for _, r := range []Obs{w.Read(nn.L, nn.H, nn.TS, h, "get", e, d.peers[p]), w.Read(nn.L, nn.H, nn.TS, h, "getByID", id)} {
				if r.Halt && sameList(r.Ret0(), want) {
					continue
				}
				// the one surplus that is explained (and listed as a finding): the values stored under ids of which
				// this id is a proper byte-prefix (ids are epoch bytes and peer bytes without framing)
				var also []string
				for _, e2 := range d.eps {
					for p2 := range d.peers {
						id2 := append(leInt(e2), d.peers[p2]...)
						if len(id2) > len(id) && bytes.HasPrefix(id2, id) {
							also = append(also, nm.m[fmt.Sprintf("%d/%d", e2, p2)]...)
						}
					}
				}
				got := strList(r.Ret0())
				exp := append(append([]string{}, vals...), also...)
				var expS []string
				for _, v := range exp {
					expS = append(expS, fmt.Sprint(NXs(v)))
				}
				sort.Strings(got)
				sort.Strings(expS)
				if !r.Halt || len(also) == 0 || fmt.Sprint(got) != fmt.Sprint(expS) {
					where["epoch"], where["method"] = e, "get"
					return viol("store-wrong", fmt.Sprintf("get(epoch %d, peer %d) = %v, put: %v", e, p, r.Stack, vals))
				}
				soft = append(soft, Viol("get-superset", fmt.Sprintf("reputation.get(%d, peer %d) / getByID also returns the values stored under an id that extends this one", e, p),
					map[string]any{"contract": "reputation", "method": "get", "relation": "id is a proper byte-prefix of id'"}))
			}
		}
		r := w.Read(nn.L, nn.H, nn.TS, h, "listByEpoch", e)
		missing, unexpl, expl := supersetExplained(strList(r.Ret0()), wantIDs, func(extra string) bool {
			// explained: a stored id of another epoch that starts with LE(e) (ids are LE(epoch)||peer without framing:
			// this covers epochs whose encoding extends LE(e) and, for epoch 0, peers whose first bytes are LE(e))
			for _, e2 := range d.eps {
				if e2 == e {
					continue
				}
				for p := range d.peers {
					id2 := append(leInt(e2), d.peers[p]...)
					if bytes.HasPrefix(id2, leInt(e)) && extra == fmt.Sprint(NX(id2)) && len(nm.m[fmt.Sprintf("%d/%d", e2, p)]) > 0 {
						return true
					}
				}
			}
			return false
		})
		if !r.Halt || len(missing) > 0 || len(unexpl) > 0 {
			where["epoch"], where["method"] = e, "listByEpoch"
			return viol("list-wrong", fmt.Sprintf("listByEpoch(%d): missing %v, unexplained extra %v (fault %q)", e, missing, unexpl, r.Fault))
		}
		if len(expl) > 0 {
			soft = append(soft, Viol("list-superset", fmt.Sprintf("reputation.listByEpoch(%d) also returns %d ids of other epochs whose encoding starts with LE(%d)", e, len(expl), e),
				map[string]any{"contract": "reputation", "method": "listByEpoch", "relation": "LE(epoch) is a proper byte-prefix of LE(epoch')"}))
		}
	}
	nn.M = nm
	return StepResult{Next: nn, Outcome: "HALT", Changed: true, Soft: dedupSoft(soft)}
}

func dedupSoft(s []*Violation) []*Violation {
	seen := map[string]bool{}
	var out []*Violation
	for _, v := range s {
		k := v.Class + fmt.Sprint(v.Where)
		if !seen[k] {
			seen[k] = true
			out = append(out, v)
		}
	}
	return out
}

// ---------- audit ----------

type audOp struct {
	e      int64
	cid    int
	from   int    // 0,1 Inner Ring members; 2 not a member
	ver    int    // trailing payload variant (same id, other content)
	signer string // own | S | other (the other Inner Ring member: a member's witness, but not the auditor's)
}

type AudDriver struct {
	ops   []audOp
	nodes []*Account
	cids  [][]byte
	eps   []int64
}

func NewAudDriver(tier string) *AudDriver {
	d := &AudDriver{eps: []int64{0, 1, 128, 256, 257, 65536}}
	if tier == "thorough" {
		d.eps = c20Epochs
	}
	for i := 0; i < 2; i++ {
		h := sha256.Sum256([]byte(fmt.Sprintf("audit-cid-%d", i)))
		d.cids = append(d.cids, h[:])
	}
	for _, e := range d.eps {
		for c := range d.cids {
			d.ops = append(d.ops, audOp{e, c, 0, 0, "own"})
		}
		d.ops = append(d.ops, audOp{e, 0, 1, 0, "own"})
	}
	d.ops = append(d.ops, audOp{1, 0, 0, 1, "own"}, audOp{1, 0, 2, 0, "own"}, audOp{1, 0, 0, 0, "S"}, audOp{257, 1, 2, 0, "own"},
		audOp{1, 0, 0, 0, "other"}, audOp{1, 0, 1, 0, "other"},
		// a result of somebody outside the Inner Ring, witnessed by its author and by a member
		audOp{1, 0, 2, 0, "own+member"}, audOp{257, 1, 2, 0, "own+member"})
	return d
}

func (d *AudDriver) Build() *World {
	w := NewWorld(1)
	w.Deploy("audit", CompileDir(Repo, "audit"), []any{false})
	d.nodes = nil
	for i := 0; i < 3; i++ {
		d.nodes = append(d.nodes, w.Acct(fmt.Sprintf("auditor%d", i)))
	}
	w.Acct("S")
	// the Inner Ring is the NeoFSAlphabet role: auditors 0 and 1
	rm := w.E.NativeHash(w.T, nativenames.Designation)
	w.Invoke(rm, []neotest.Signer{w.CommS}, "designateAsRole", int64(16), []any{d.nodes[0].Pub(), d.nodes[1].Pub()})
	w.Freeze()
	return w
}

func (d *AudDriver) blob(o audOp) []byte {
	b := []byte{0x0a, 0x00, 0x11}
	var eb [8]byte
	binary.LittleEndian.PutUint64(eb[:], uint64(o.e))
	b = append(b, eb[:]...)
	b = append(b, 0x1a, 0x22, 0x0a, 0x20)
	b = append(b, d.cids[o.cid]...)
	b = append(b, 0x22, 0x21)
	b = append(b, d.nodes[o.from].Pub()...)
	return append(b, 0x28, byte(o.ver))
}

func (d *AudDriver) id(e int64, cid, from int) []byte {
	h := sha256.Sum256(d.nodes[from].Pub())
	return append(append(leInt(e), d.cids[cid]...), h[:24]...)
}

func (d *AudDriver) Init(*World) Model { return &kvModel{m: map[string][]string{}} }
func (d *AudDriver) NumOps() int       { return len(d.ops) }
func (d *AudDriver) OpName(_ *Node, i int) string {
	o := d.ops[i]
	return fmt.Sprintf("audit.put(epoch %d, cid %d, auditor %d, v%d) signed by %s", o.e, o.cid, o.from, o.ver, o.signer)
}
func (d *AudDriver) Enabled(*Node, int) bool { return true }
func (d *AudDriver) Step(x *Exec, n *Node, i int) StepResult {
	w := x.W
	m := n.M.(*kvModel)
	nm := m.Clone().(*kvModel)
	o := d.ops[i]
	h := w.Contracts["audit"].Hash
	where := map[string]any{"contract": "audit"}
	viol := func(class, msg string) StepResult {
		return StepResult{V: Viol(class, msg, where), Outcome: "violation"}
	}
	signer := d.nodes[o.from].Hash
	if o.signer == "S" {
		signer = w.Acct("S").Hash
	}
	if o.signer == "other" {
		signer = d.nodes[1-o.from].Hash
	}
	blob := d.blob(o)
	signers := []util.Uint160{signer}
	if o.signer == "own+member" {
		signers = []util.Uint160{d.nodes[o.from].Hash, d.nodes[0].Hash}
	}
	obs, nn := x.Do(n, Call{Script: Script(h, "put", blob), Signers: signers, Label: d.OpName(n, i)})
	want := o.from < 2 && o.signer == "own"
	if obs.Halt != want {
		where["auditor_is_member"], where["witnessed"] = o.from < 2, o.signer == "own"
		return viol("audit-access", fmt.Sprintf("put by auditor %d signed by %s: halt=%v fault=%q", o.from, o.signer, obs.Halt, obs.Fault))
	}
	if !obs.Halt {
		if len(DiffDumps(w.FullDump(n.L), w.FullDump(nn.L))) > 0 {
			return viol("refused-but-changed", "")
		}
		nn.M = m
		return StepResult{Next: nn, Outcome: "FAULT"}
	}
	nm.m[fmt.Sprintf("%d/%d/%d", o.e, o.cid, o.from)] = []string{Hx(blob)}
	var soft []*Violation
	var all []string
	type ent struct {
		e         int64
		cid, from int
	}
	var ents []ent
	for _, e := range d.eps {
		for c := range d.cids {
			for f := 0; f < 3; f++ {
				v := nm.m[fmt.Sprintf("%d/%d/%d", e, c, f)]
				id := d.id(e, c, f)
				r := w.Read(nn.L, nn.H, nn.TS, h, "get", id)
				if len(v) > 0 {
					all = append(all, fmt.Sprint(NX(id)))
					ents = append(ents, ent{e, c, f})
					if !Same(r.Ret0(), "x"+v[0]) {
						where["method"] = "get"
						return viol("store-wrong", fmt.Sprintf("get(id of epoch %d cid %d auditor %d) = %v", e, c, f, r.Stack))
					}
				} else if r.Halt && r.Ret0() != nil {
					where["method"] = "get"
					return viol("store-wrong", fmt.Sprintf("get of a never-put id returns %v", r.Stack))
				}
			}
		}
	}
	sort.Strings(all)
	if r := w.Read(nn.L, nn.H, nn.TS, h, "list"); fmt.Sprint(strList(r.Ret0())) != fmt.Sprint(all) {
		where["method"] = "list"
		return viol("list-wrong", fmt.Sprintf("list() = %v, put %v", strList(r.Ret0()), all))
	}
	for _, e := range d.eps {
		sel := func(pred func(ent) bool) []string {
			var out []string
			for _, en := range ents {
				if pred(en) {
					out = append(out, fmt.Sprint(NX(d.id(en.e, en.cid, en.from))))
				}
			}
			return out
		}
		cmp := func(method string, r Obs, want []string) *StepResult {
			missing, unexpl, expl := supersetExplained(strList(r.Ret0()), want, func(extra string) bool {
				for _, en := range ents {
					if properPrefixEpoch(e, en.e) && extra == fmt.Sprint(NX(d.id(en.e, en.cid, en.from))) {
						return true
					}
				}
				return false
			})
			if !r.Halt || len(missing) > 0 || len(unexpl) > 0 {
				where["epoch"], where["method"] = e, method
				v := viol("list-wrong", fmt.Sprintf("%s(epoch %d...): missing %v, unexplained extra %v (fault %q)", method, e, missing, unexpl, r.Fault))
				return &v
			}
			if len(expl) > 0 {
				soft = append(soft, Viol("list-superset", fmt.Sprintf("audit.%s(%d) also returns %d ids of other epochs whose encoding starts with LE(%d)", method, e, len(expl), e),
					map[string]any{"contract": "audit", "method": method, "relation": "LE(epoch) is a proper byte-prefix of LE(epoch')"}))
			}
			return nil
		}
		if v := cmp("listByEpoch", w.Read(nn.L, nn.H, nn.TS, h, "listByEpoch", e), sel(func(en ent) bool { return en.e == e })); v != nil {
			return *v
		}
		for c := range d.cids {
			c := c
			if v := cmp("listByCID", w.Read(nn.L, nn.H, nn.TS, h, "listByCID", e, d.cids[c]), sel(func(en ent) bool { return en.e == e && en.cid == c })); v != nil {
				return *v
			}
			for f := 0; f < 3; f++ {
				f := f
				if v := cmp("listByNode", w.Read(nn.L, nn.H, nn.TS, h, "listByNode", e, d.cids[c], d.nodes[f].Pub()), sel(func(en ent) bool { return en.e == e && en.cid == c && en.from == f })); v != nil {
					return *v
				}
			}
		}
	}
	nn.M = nm
	return StepResult{Next: nn, Outcome: "HALT", Changed: true, Soft: dedupSoft(soft)}
}

// ---------- NeoFSID ----------

type idOp struct {
	kind   string // add remove
	owner  int
	keys   []int
	signer string
}

type IDDriver struct {
	ops    []idOp
	owners [][]byte
	keys   [][]byte
}

func NewIDDriver() *IDDriver {
	d := &IDDriver{}
	d.owners = [][]byte{OwnerID(util.Uint160{1, 0xaa}), OwnerID(util.Uint160{2, 0xbb})}
	for i := 0; i < 3; i++ {
		d.keys = append(d.keys, DetKey(0x62, i).PublicKey().Bytes())
	}
	for o := 0; o < 2; o++ {
		for _, ks := range [][]int{{0}, {1}, {0, 1}, {2}} {
			d.ops = append(d.ops, idOp{"add", o, ks, "C"}, idOp{"remove", o, ks, "C"})
		}
	}
	d.ops = append(d.ops, idOp{"add", 0, []int{0}, "S"}, idOp{"remove", 0, []int{0}, "S"}, idOp{"addBadOwner", 0, []int{0}, "C"}, idOp{"addBadKey", 0, []int{0}, "C"})
	return d
}
func (d *IDDriver) Build() *World {
	w := NewWorld(1)
	w.Deploy("neofsid", CompileDir(Repo, "neofsid"), []any{false})
	w.Acct("S")
	w.Freeze()
	return w
}
func (d *IDDriver) Init(*World) Model { return &kvModel{m: map[string][]string{}} }
func (d *IDDriver) NumOps() int       { return len(d.ops) }
func (d *IDDriver) OpName(_ *Node, i int) string {
	o := d.ops[i]
	return fmt.Sprintf("neofsid.%sKey(owner %d, keys %v) by %s", o.kind, o.owner, o.keys, o.signer)
}
func (d *IDDriver) Enabled(*Node, int) bool { return true }
func (d *IDDriver) Step(x *Exec, n *Node, i int) StepResult {
	w := x.W
	m := n.M.(*kvModel)
	nm := m.Clone().(*kvModel)
	o := d.ops[i]
	h := w.Contracts["neofsid"].Hash
	where := map[string]any{"contract": "neofsid"}
	viol := func(class, msg string) StepResult {
		return StepResult{V: Viol(class, msg, where), Outcome: "violation"}
	}
	signer := w.Alpha
	if o.signer == "S" {
		signer = w.Acct("S").Hash
	}
	var ks []any
	for _, k := range o.keys {
		key := d.keys[k]
		if o.kind == "addBadKey" {
			key = key[:32]
		}
		ks = append(ks, key)
	}
	owner := d.owners[o.owner]
	method := "addKey"
	switch o.kind {
	case "remove":
		method = "removeKey"
	case "addBadOwner":
		owner = owner[:24]
	}
	obs, nn := x.Do(n, Call{Script: Script(h, method, owner, ks), Signers: []util.Uint160{signer}, Label: d.OpName(n, i)})
	want := o.signer == "C" && (o.kind == "add" || o.kind == "remove")
	if obs.Halt != want {
		return viol("outcome", fmt.Sprintf("halt=%v fault=%q", obs.Halt, obs.Fault))
	}
	if !obs.Halt {
		if len(DiffDumps(w.FullDump(n.L), w.FullDump(nn.L))) > 0 {
			return viol("refused-but-changed", "")
		}
		nn.M = m
		return StepResult{Next: nn, Outcome: "FAULT"}
	}
	ok := fmt.Sprint(o.owner)
	set := map[string]bool{}
	for _, k := range nm.m[ok] {
		set[k] = true
	}
	for _, k := range o.keys {
		if o.kind == "add" {
			set[Hx(d.keys[k])] = true
		} else {
			delete(set, Hx(d.keys[k]))
		}
	}
	nm.m[ok] = nil
	for k := range set {
		nm.m[ok] = append(nm.m[ok], k)
	}
	sort.Strings(nm.m[ok])
	for ow := 0; ow < 2; ow++ {
		var want []string
		for _, k := range nm.m[fmt.Sprint(ow)] {
			want = append(want, "x"+k)
		}
		sort.Strings(want)
		r := w.Read(nn.L, nn.H, nn.TS, h, "key", d.owners[ow])
		if !r.Halt || fmt.Sprint(strList(r.Ret0())) != fmt.Sprint(want) {
			where["method"] = "key"
			return viol("store-wrong", fmt.Sprintf("key(owner %d) = %v, bound keys %v", ow, strList(r.Ret0()), want))
		}
	}
	nn.M = nm
	return StepResult{Next: nn, Outcome: "HALT", Changed: len(DiffDumps(w.FullDump(n.L), w.FullDump(nn.L))) > 0}
}

// ---------- configuration maps of Netmap and NeoFS ----------

type cfgOp struct {
	contract string
	key, val string
	signer   string
}

type CfgDriver struct {
	ops  []cfgOp
	keys []string
}

func NewCfgDriver() *CfgDriver {
	d := &CfgDriver{keys: []string{"", "a", "ab", "abc", "b"}}
	for _, c := range []string{"netmap", "neofs"} {
		for _, k := range d.keys {
			for _, v := range []string{"v1", "v2"} {
				d.ops = append(d.ops, cfgOp{c, k, v, "C"})
			}
			if k == "a" || k == "" {
				d.ops = append(d.ops, cfgOp{c, k, "", "C"}) // an empty value (what the integer 0 looks like) is a value too
			}
		}
		d.ops = append(d.ops, cfgOp{c, "a", "v1", "S"})
	}
	return d
}
func (d *CfgDriver) Build() *World {
	w := NewWorld(1)
	w.Deploy("nns", CompileDir(Repo, "nns"), []any{[]any{[]any{"neofs", "ops@x.y"}}})
	w.Deploy("netmap", CompileDir(Repo, "netmap"), []any{false, util.Uint160{}, util.Uint160{}, []any{}, []any{[]byte("zz"), []byte("initial")}})
	var ks []any
	for _, k := range w.Pubs {
		ks = append(ks, k.Bytes())
	}
	w.Deploy("neofs", CompileDir(Repo, "neofs"), []any{false, util.Uint160{1}, ks, []any{[]byte("zz"), []byte("initial")}})
	w.Acct("S")
	w.Freeze()
	return w
}
func (d *CfgDriver) Init(*World) Model {
	return &kvModel{m: map[string][]string{"netmap/zz": {"initial"}, "neofs/zz": {"initial"}}}
}
func (d *CfgDriver) NumOps() int { return len(d.ops) }
func (d *CfgDriver) OpName(_ *Node, i int) string {
	o := d.ops[i]
	return fmt.Sprintf("%s.setConfig(%q=%s) by %s", o.contract, o.key, o.val, o.signer)
}
func (d *CfgDriver) Enabled(*Node, int) bool { return true }
func (d *CfgDriver) Step(x *Exec, n *Node, i int) StepResult {
	w := x.W
	m := n.M.(*kvModel)
	nm := m.Clone().(*kvModel)
	o := d.ops[i]
	h := w.Contracts[o.contract].Hash
	where := map[string]any{"contract": o.contract}
	viol := func(class, msg string) StepResult {
		return StepResult{V: Viol(class, msg, where), Outcome: "violation"}
	}
	signer := w.Alpha
	if o.signer == "S" {
		signer = w.Acct("S").Hash
	}
	obs, nn := x.Do(n, Call{Script: Script(h, "setConfig", []byte("id-"+o.key+o.val), []byte(o.key), []byte(o.val)), Signers: []util.Uint160{signer}, Label: d.OpName(n, i)})
	if obs.Halt != (o.signer == "C") {
		return viol("outcome", fmt.Sprintf("halt=%v fault=%q", obs.Halt, obs.Fault))
	}
	if !obs.Halt {
		if len(DiffDumps(w.FullDump(n.L), w.FullDump(nn.L))) > 0 {
			return viol("refused-but-changed", "")
		}
		nn.M = m
		return StepResult{Next: nn, Outcome: "FAULT"}
	}
	nm.m[o.contract+"/"+o.key] = []string{o.val}
	for _, c := range []string{"netmap", "neofs"} {
		ch := w.Contracts[c].Hash
		var want []string
		for _, k := range append(append([]string{}, d.keys...), "zz", "never") {
			v := nm.m[c+"/"+k]
			r := w.Read(nn.L, nn.H, nn.TS, ch, "config", []byte(k))
			if len(v) > 0 {
				want = append(want, fmt.Sprint([]any{NXs(k), NXs(v[0])}))
				if !Same(r.Ret0(), NXs(v[0])) {
					where["method"], where["key"] = "config", k
					return viol("store-wrong", fmt.Sprintf("%s.config(%q) = %v, set to %s", c, k, r.Stack, v[0]))
				}
			} else if r.Halt && r.Ret0() != nil {
				where["method"], where["key"] = "config", k
				return viol("store-wrong", fmt.Sprintf("%s.config(%q) = %v, never set", c, k, r.Stack))
			}
		}
		sort.Strings(want)
		r := w.Read(nn.L, nn.H, nn.TS, ch, "listConfig")
		if got := strList(r.Ret0()); !r.Halt || fmt.Sprint(got) != fmt.Sprint(want) {
			where["method"] = "listConfig"
			return viol("list-wrong", fmt.Sprintf("%s.listConfig() = %v, set %v", c, got, want))
		}
	}
	nn.M = nm
	return StepResult{Next: nn, Outcome: "HALT", Changed: len(DiffDumps(w.FullDump(n.L), w.FullDump(nn.L))) > 0}
}

// ---------- container size estimations ----------

type estOp struct {
	kind string // put tick putNoWitness putStranger putUnknownContainer
	e    int64  // absolute epoch, or relative to the current one when rel
	rel  bool
	cid  int
	node int
	size int64
}

type EstDriver struct {
	Base  int64 // epoch of the base state (10 unless set): the relative puts and the cleanup straddle it
	ops   []estOp
	nodes []*Account // 0,1 in the network map; 2 not
	cids  [][]byte
	eps   []int64
}

// NewEstDriverAt places the base state at another epoch, so that the puts relative to it and the two cleanup
// deltas run where the epoch's byte encoding changes length (127/128, 255/256).
func NewEstDriverAt(tier string, base int64) *EstDriver {
	d := NewEstDriver(tier)
	d.Base = base
	return d
}

func NewEstDriver(tier string) *EstDriver {
	d := &EstDriver{Base: 10}
	abs := []int64{0, 1, 256, 257}
	if tier == "thorough" {
		abs = []int64{0, 1, 127, 128, 255, 256, 257, 65536}
	}
	for _, e := range abs {
		d.ops = append(d.ops, estOp{kind: "put", e: e, cid: 0, node: 0, size: 10})
	}
	d.ops = append(d.ops, estOp{kind: "put", e: 257, cid: 1, node: 1, size: 30})
	for _, r := range []int64{-4, -3, 0, 1} {
		d.ops = append(d.ops, estOp{kind: "put", e: r, rel: true, cid: 0, node: 0, size: 10}, estOp{kind: "put", e: r, rel: true, cid: 0, node: 1, size: 20})
	}
	d.ops = append(d.ops, estOp{kind: "put", e: 0, rel: true, cid: 0, node: 0, size: 11}, estOp{kind: "put", e: 0, rel: true, cid: 1, node: 0, size: 10},
		estOp{kind: "putNoWitness", e: 0, rel: true, cid: 0, node: 0, size: 10}, estOp{kind: "putStranger", e: 0, rel: true, cid: 0, node: 2, size: 10},
		estOp{kind: "putUnknownContainer", e: 0, rel: true, cid: 0, node: 0, size: 10}, estOp{kind: "tick"},
		estOp{kind: "putOtherNode", e: 0, rel: true, cid: 0, node: 0, size: 10},
		// node 3 joined with the latest tick (in the current map only), node 4 left with it (in the previous map only)
		estOp{kind: "put", e: 0, rel: true, cid: 0, node: 3, size: 33}, estOp{kind: "put", e: 0, rel: true, cid: 0, node: 4, size: 44},
		// the container is removed while estimations for it are still fresh
		estOp{kind: "delContainer", cid: 0})
	return d
}

func (d *EstDriver) Build() *World {
	w := buildContainerWorld(1, 0, 0)
	nm, cnt := w.Contracts["netmap"].Hash, w.Contracts["container"].Hash
	al := []neotest.Signer{w.AlphaS}
	d.nodes, d.cids = nil, nil
	for i := 0; i < 5; i++ {
		d.nodes = append(d.nodes, w.Acct(fmt.Sprintf("sn%d", i)))
	}
	for i := 0; i < 2; i++ {
		blob, cid := mkContainerBlob(util.Uint160{byte(i + 1), 0xcc}, byte(i))
		w.Invoke(cnt, al, "put", blob, []byte("sig"), append([]byte{2}, make([]byte, 32)...), []byte("tok"))
		d.cids = append(d.cids, cid)
	}
	info := func(i int) []byte { return append(append([]byte{0, 0}, d.nodes[i].Pub()...), 0xAA) }
	for _, i := range []int{0, 1, 4} {
		w.Invoke(nm, al, "addPeerIR", info(i))
	}
	// epoch 10: large enough for relative epochs down to cur-4; nodes 0 and 1 are in every map,
	// node 4 leaves and node 3 joins with the last tick
	for _, e := range []int64{1, 2, 3, 4, 5, 6, 7, 8, d.Base - 1, d.Base} {
		if e == d.Base {
			w.Invoke(nm, al, "updateStateIR", int64(2), d.nodes[4].Pub())
			w.Invoke(nm, al, "addPeerIR", info(3))
		}
		w.Invoke(nm, al, "newEpoch", e)
	}
	w.Acct("S")
	w.Freeze()
	return w
}
func (d *EstDriver) Init(*World) Model {
	// "prev"/"cur": the members of the previous and the current network map
	return &kvModel{m: map[string][]string{"prev": {"0", "1", "4"}, "cur": {"0", "1", "3"}}, epoch: d.Base}
}
func (d *EstDriver) NumOps() int { return len(d.ops) }
func (d *EstDriver) abs(m *kvModel, o estOp) int64 {
	if o.rel {
		return m.epoch + o.e
	}
	return o.e
}
func (d *EstDriver) OpName(n *Node, i int) string {
	o := d.ops[i]
	m := n.M.(*kvModel)
	if o.kind == "tick" {
		return fmt.Sprintf("netmap.newEpoch(%d)", m.epoch+1)
	}
	if o.kind == "delContainer" {
		return fmt.Sprintf("container.delete(cid %d)", o.cid)
	}
	return fmt.Sprintf("%s ContainerSize(epoch %d, cid %d, size %d, node %d)", o.kind, d.abs(m, o), o.cid, o.size, o.node)
}
func (d *EstDriver) Enabled(n *Node, i int) bool {
	m := n.M.(*kvModel)
	if d.ops[i].kind == "delContainer" {
		return len(m.m["deleted"]) == 0
	}
	return d.ops[i].kind != "tick" || m.epoch < d.Base+6
}

func estKeyOf(e int64, cid, node int) string { return fmt.Sprintf("%d/%d/%d", e, cid, node) }

func (d *EstDriver) Step(x *Exec, n *Node, i int) StepResult {
	w := x.W
	m := n.M.(*kvModel)
	nm := m.Clone().(*kvModel)
	o := d.ops[i]
	h := w.Contracts["container"].Hash
	where := map[string]any{"contract": "container"}
	viol := func(class, msg string) StepResult {
		return StepResult{V: Viol(class, msg, where), Outcome: "violation"}
	}
	var obs Obs
	var nn *Node
	parse := func(k string) (int64, int, int) {
		var e int64
		var c, nd int
		fmt.Sscanf(k, "%d/%d/%d", &e, &c, &nd)
		return e, c, nd
	}
	if o.kind == "delContainer" {
		// the container goes, its estimations stay until the documented deltas have passed
		obs, nn = x.Do(n, Call{Script: Script(h, "delete", d.cids[o.cid], []byte("sig"), []byte("tok")), Signers: []util.Uint160{w.Alpha}, Label: d.OpName(n, i)})
		if !obs.Halt {
			return viol("outcome", "delete failed: "+obs.Fault)
		}
		nm.m["deleted"] = []string{fmt.Sprint(o.cid)}
	} else if o.kind == "tick" {
		e := m.epoch + 1
		obs, nn = x.Do(n, Call{Script: Script(w.Contracts["netmap"].Hash, "newEpoch", e), Signers: []util.Uint160{w.Alpha}, Label: d.OpName(n, i)})
		if !obs.Halt {
			return viol("outcome", "tick failed: "+obs.Fault)
		}
		nm.epoch = e
		nm.m["prev"] = append([]string{}, m.m["cur"]...) // candidates do not change here: the new map equals the current one
		for k := range m.m {
			if k == "prev" || k == "cur" || k == "deleted" {
				continue
			}
			if ke, _, _ := parse(k); e-ke > 4 { // TotalCleanupDelta
				delete(nm.m, k)
			}
		}
	} else {
		e := d.abs(m, o)
		signer := d.nodes[o.node].Hash
		cid := d.cids[o.cid]
		switch o.kind {
		case "putNoWitness":
			signer = w.Acct("S").Hash
		case "putOtherNode":
			signer = d.nodes[1-o.node].Hash // a node of the map, but not the one whose key is announced
		case "putUnknownContainer":
			cid = make([]byte, 32)
		}
		obs, nn = x.Do(n, Call{Script: Script(h, "putContainerSize", e, cid, o.size, d.nodes[o.node].Pub()), Signers: []util.Uint160{signer}, Label: d.OpName(n, i)})
		want := o.kind == "put" && contains(m.m["prev"], fmt.Sprint(o.node)) // nodes of the PREVIOUS epoch's map
		if contains(m.m["deleted"], fmt.Sprint(o.cid)) {
			want = false // no estimations for a container that is gone
		}
		if obs.Halt != want {
			where["case"] = o.kind
			return viol("estimation-access", fmt.Sprintf("%s: halt=%v fault=%q", d.OpName(n, i), obs.Halt, obs.Fault))
		}
		if !obs.Halt {
			if len(DiffDumps(w.FullDump(n.L), w.FullDump(nn.L))) > 0 {
				return viol("refused-but-changed", "")
			}
			nn.M = m
			return StepResult{Next: nn, Outcome: "FAULT"}
		}
		// per (container, node): entries more than CleanupDelta epochs older than the new one go
		for k := range m.m {
			if k == "prev" || k == "cur" || k == "deleted" {
				continue
			}
			if ke, kc, kn := parse(k); kc == o.cid && kn == o.node && e-ke > 3 {
				delete(nm.m, k)
			}
		}
		nm.m[estKeyOf(e, o.cid, o.node)] = []string{fmt.Sprint(o.size)}
	}
	// ---- all reads for all epochs the menu or the model mention ----
	epset := map[int64]bool{0: true, 1: true, 256: true, 257: true}
	for k := range nm.m {
		if k == "prev" || k == "cur" || k == "deleted" {
			continue
		}
		e, _, _ := parse(k)
		epset[e] = true
	}
	for r := int64(-5); r <= 1; r++ {
		epset[nm.epoch+r] = true
	}
	var soft []*Violation
	estItem := func(node int, size string) string {
		s, _ := new(big.Int).SetString(size, 10)
		return fmt.Sprint([]any{NX(d.nodes[node].Pub()), NB(s)})
	}
	var epl []int64
	for e := range epset {
		epl = append(epl, e)
	}
	sort.Slice(epl, func(a, b int) bool { return epl[a] < epl[b] })
	for _, e := range epl {
		var wantIDs []string
		var wantAll []string
		for c := range d.cids {
			var wantEst []string
			for nd := 0; nd < 5; nd++ {
				if v := nm.m[estKeyOf(e, c, nd)]; len(v) > 0 {
					wantEst = append(wantEst, estItem(nd, v[0]))
				}
			}
			sort.Strings(wantEst)
			id := append(append([]byte("cnr"), leInt(e)...), d.cids[c]...)
			if len(wantEst) > 0 {
				wantIDs = append(wantIDs, fmt.Sprint(NX(id)))
				wantAll = append(wantAll, wantEst...)
			}
			r := w.Read(nn.L, nn.H, nn.TS, h, "iterateContainerSizes", e, d.cids[c])
			if got := strList(r.Ret0()); !r.Halt || fmt.Sprint(got) != fmt.Sprint(wantEst) {
				where["method"], where["epoch"] = "iterateContainerSizes", e
				return viol("store-wrong", fmt.Sprintf("iterateContainerSizes(%d, cid %d) = %v, model %v (current epoch %d)", e, c, got, wantEst, nm.epoch))
			}
			r = w.Read(nn.L, nn.H, nn.TS, h, "getContainerSize", id)
			if l, ok := r.Ret0().([]any); !r.Halt || !ok || len(l) != 2 || !Same(l[0], NX(d.cids[c])) || fmt.Sprint(strList(l[1])) != fmt.Sprint(wantEst) {
				where["method"], where["epoch"] = "getContainerSize", e
				return viol("store-wrong", fmt.Sprintf("getContainerSize(epoch %d, cid %d) = %v, model %v", e, c, r.Stack, wantEst))
			}
		}
		explained := func(extra string) bool {
			for k := range nm.m {
				if k == "prev" || k == "cur" || k == "deleted" {
					continue
				}
				ke, kc, _ := parse(k)
				if properPrefixEpoch(e, ke) && extra == fmt.Sprint(NX(append(append([]byte("cnr"), leInt(ke)...), d.cids[kc]...))) {
					return true
				}
			}
			return false
		}
		r := w.Read(nn.L, nn.H, nn.TS, h, "listContainerSizes", e)
		missing, unexpl, expl := supersetExplained(strList(r.Ret0()), wantIDs, explained)
		if !r.Halt || len(missing) > 0 || len(unexpl) > 0 {
			where["method"], where["epoch"] = "listContainerSizes", e
			return viol("list-wrong", fmt.Sprintf("listContainerSizes(%d): missing %v, unexplained extra %v (current epoch %d)", e, missing, unexpl, nm.epoch))
		}
		if len(expl) > 0 {
			soft = append(soft, Viol("list-superset", fmt.Sprintf("container.listContainerSizes(%d) also returns ids of other epochs whose encoding starts with LE(%d)", e, e),
				map[string]any{"contract": "container", "method": "listContainerSizes", "relation": "LE(epoch) is a proper byte-prefix of LE(epoch')"}))
		}
		// iterateAllContainerSizes: (key, estimation) pairs; compare the estimations
		r = w.Read(nn.L, nn.H, nn.TS, h, "iterateAllContainerSizes", e)
		var gotAll []string
		if l, ok := r.Ret0().([]any); ok {
			for _, kv := range l {
				if p, ok := kv.([]any); ok && len(p) == 2 {
					gotAll = append(gotAll, fmt.Sprint(p[1]))
				}
			}
		}
		sort.Strings(gotAll)
		sort.Strings(wantAll)
		if fmt.Sprint(gotAll) != fmt.Sprint(wantAll) {
			// the known finding explains exactly one surplus: the estimations stored under epochs whose encoding
			// starts with LE(e); the answer must be the model's list plus precisely those
			explAll := append([]string{}, wantAll...)
			for k, v := range nm.m {
				if k == "prev" || k == "cur" || k == "deleted" || len(v) == 0 {
					continue
				}
				if ke, _, kn := parse(k); properPrefixEpoch(e, ke) {
					explAll = append(explAll, estItem(kn, v[0]))
				}
			}
			sort.Strings(explAll)
			if len(explAll) == len(wantAll) || fmt.Sprint(gotAll) != fmt.Sprint(explAll) {
				where["method"], where["epoch"] = "iterateAllContainerSizes", e
				return viol("list-wrong", fmt.Sprintf("iterateAllContainerSizes(%d) = %v, model %v (with the entries of prefix-related epochs: %v)", e, gotAll, wantAll, explAll))
			}
			soft = append(soft, Viol("list-superset", fmt.Sprintf("container.iterateAllContainerSizes(%d) also returns estimations of other epochs whose encoding starts with LE(%d)", e, e),
				map[string]any{"contract": "container", "method": "iterateAllContainerSizes", "relation": "LE(epoch) is a proper byte-prefix of LE(epoch')"}))
		}
	}
	// raw scan: exactly the model's entries exist
	cnt := 0
	for _, kv := range w.Dump(nn.L, "container") {
		if strings.HasPrefix(string(kv.K), "cnr") {
			cnt++
		}
	}
	meta := 2 // "prev" and "cur"
	if _, ok := nm.m["deleted"]; ok {
		meta++
	}
	if cnt != len(nm.m)-meta {
		where["method"] = "raw-scan"
		return viol("cleanup-wrong", fmt.Sprintf("%d estimation records stored, model has %d (current epoch %d): %v", cnt, len(nm.m)-meta, nm.epoch, nm.m))
	}
	nn.M = nm
	return StepResult{Next: nn, Outcome: "HALT", Changed: true, Soft: dedupSoft(soft)}
}

var _ = hash.Hash160
