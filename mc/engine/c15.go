package engine

import (
	"bytes"
	"encoding/json"
	"fmt"
	"go/ast"
	"go/parser"
	"go/token"
	"os"
	"path/filepath"
	"regexp"
	"sort"
	"strconv"
	"strings"
	"sync"
	"time"

	clisc "github.com/nspcc-dev/neo-go/cli/smartcontract"
	"github.com/nspcc-dev/neo-go/pkg/compiler"
	"github.com/nspcc-dev/neo-go/pkg/config"
	"github.com/nspcc-dev/neo-go/pkg/smartcontract/binding"
	"github.com/nspcc-dev/neo-go/pkg/smartcontract/manifest"
	"github.com/nspcc-dev/neo-go/pkg/smartcontract/nef"
	"github.com/nspcc-dev/neo-go/pkg/smartcontract/rpcbinding"
	"github.com/nspcc-dev/neo-go/pkg/util"
	"github.com/nspcc-dev/neofs-contract/contracts"
	"gopkg.in/yaml.v3"
)

// C15: the shipped executables, manifests and RPC bindings correspond to the sources.
//
// Finite and fully enumerated: 11 contracts x {script, method tokens, manifest}, 11 generated
// bindings x every method, the deployment order and its adjacent transpositions, the version
// of every contract. Where a shipped script differs from a fresh compilation the verdict is
// not taken from the bytes: embedded and fresh contract are executed side by side over the
// C03 method table crossed with boundary values of every integer argument, and only an
// observable difference is a violation.

var fsOrder = []string{"nns", "proxy", "audit", "netmap", "balance", "reputation", "neofsid", "container", "alphabet"}
var mainOrder = []string{"neofs", "processing"}

// compileOverride lets a world deploy the embedded executable instead of the fresh one.
var compileOverride = map[string]*Compiled{}

func compiledFor(name string) *Compiled {
	if c, ok := compileOverride[name]; ok {
		return c
	}
	return CompileDir(Repo, name)
}

type c15Result struct {
	violations []*Violation
	evals      int
	nontrivial map[string]bool
	samples    []any
	notes      map[string]any
}

func embeddedSet() (map[string]*Compiled, []string, []string, error) {
	fsC, err := contracts.GetFS()
	if err != nil {
		return nil, nil, nil, err
	}
	mainC, err := contracts.GetMain()
	if err != nil {
		return nil, nil, nil, err
	}
	// the package returns positions only: names come from the manifests
	byManifest := map[string]string{}
	for _, n := range append(append([]string{}, fsOrder...), mainOrder...) {
		byManifest[CompileDir(Repo, n).Manifest.Name] = n
	}
	out := map[string]*Compiled{}
	var fsNames, mainNames []string
	name := func(c contracts.Contract) string {
		if n, ok := byManifest[c.Manifest.Name]; ok {
			return n
		}
		return "?" + c.Manifest.Name
	}
	for i := range fsC {
		n := name(fsC[i])
		fsNames = append(fsNames, n)
		ne, m := fsC[i].NEF, fsC[i].Manifest
		out[n] = &Compiled{NEF: &ne, Manifest: &m}
	}
	for i := range mainC {
		n := name(mainC[i])
		mainNames = append(mainNames, n)
		ne, m := mainC[i].NEF, mainC[i].Manifest
		out[n] = &Compiled{NEF: &ne, Manifest: &m}
	}
	return out, fsNames, mainNames, nil
}

func manifestJSON(m *manifest.Manifest) string {
	b, _ := json.Marshal(m)
	return string(b)
}

func tokensJSON(f *nef.File) string {
	b, _ := json.Marshal(f.Tokens)
	return string(b)
}

func runC15(tier string, seed int64) int {
	t0 := time.Now()
	res := &c15Result{nontrivial: map[string]bool{}, notes: map[string]any{}}
	add := func(class, msg string, where map[string]any) {
		res.violations = append(res.violations, Viol(class, msg, where))
	}
	emb, fsNames, mainNames, err := embeddedSet()
	if err != nil {
		add("embedded-unreadable", err.Error(), map[string]any{})
		return finishC15(tier, seed, res, t0)
	}
	all := append(append([]string{}, fsOrder...), mainOrder...)
	sort.Strings(all)
	// ---- 1. scripts, tokens, manifests ----
	var scriptDiffers []string
	per := map[string]any{}
	for _, n := range all {
		e, ok := emb[n]
		res.evals++
		if !ok {
			add("embedded-missing", "the package does not ship contract "+n, map[string]any{"contract": n})
			continue
		}
		f := CompileDir(Repo, n)
		sEq := bytes.Equal(e.NEF.Script, f.NEF.Script) && tokensJSON(e.NEF) == tokensJSON(f.NEF)
		mEq := manifestJSON(e.Manifest) == manifestJSON(f.Manifest)
		per[n] = map[string]any{"script_identical": sEq, "manifest_identical": mEq, "script_bytes": len(f.NEF.Script), "methods": len(f.Manifest.ABI.Methods)}
		res.nontrivial["artefact/"+n] = true
		if !sEq {
			scriptDiffers = append(scriptDiffers, n)
		}
		if !mEq {
			// ABI, events and permissions are compared entry by entry for the message
			add("manifest-differs", fmt.Sprintf("%s: shipped manifest.json does not describe the sources: %s", n, manifestDiff(e.Manifest, f.Manifest)), map[string]any{"contract": n})
		}
	}
	res.notes["artefacts"] = per
	res.samples = append(res.samples, map[string]any{"artefact comparison": per["balance"]})
	// ---- 2. differential execution where a script differs ----
	if len(scriptDiffers) > 0 {
		res.notes["scripts_differing"] = scriptDiffers
		n, dv := differentialRun(emb, scriptDiffers, tier)
		if len(dv) == 0 {
			// lock-step bisimulation check: the property drivers of every differing contract are
			// explored in two worlds (sources / shipped executable under the same contract hash)
			// and every transition's outcome and successor state must coincide
			n2, dv2 := dualWorldRun(emb, scriptDiffers, tier)
			n += n2
			dv = dv2
			if len(dv) == 0 {
				// and the exhaustive grids that exercise the contract, case by case in both worlds
				n3, dv3 := dualGridRun(emb, scriptDiffers, tier)
				n += n3
				dv = dv3
			}
		}
		res.evals += n
		res.notes["differential_executions"] = n
		if len(dv) > 0 {
			res.violations = append(res.violations, dv...)
		} else {
			for _, c := range scriptDiffers {
				// no observable difference in the enumerated space: still a stale artefact, reported softly
				res.notes["stale_but_equivalent_"+c] = "script bytes differ, no behavioural difference found"
			}
		}
	}
	// ---- 3. deployment order ----
	if fmt.Sprint(fsNames) != "" {
		res.notes["fs_order"] = fsNames
		res.notes["main_order"] = mainNames
		ok, msg := tryDeployOrder(emb, fsNames)
		res.evals++
		res.nontrivial["order/returned"] = true
		if !ok {
			add("deployment-order", "deploying GetFS() in the returned order fails: "+msg, map[string]any{"order": fmt.Sprint(fsNames)})
		}
		fails := 0
		for i := 0; i+1 < len(fsNames); i++ {
			sw := append([]string{}, fsNames...)
			sw[i], sw[i+1] = sw[i+1], sw[i]
			res.evals++
			if ok2, _ := tryDeployOrder(emb, sw); !ok2 {
				fails++
				res.nontrivial[fmt.Sprintf("order/swap%d", i)] = true
			}
		}
		res.notes["adjacent_transpositions_failing"] = fails
		if ok && fails == 0 {
			res.notes["order_clause"] = "vacuous: no adjacent transposition fails"
		}
		if len(fsNames) != len(fsOrder) || len(mainNames) != len(mainOrder) {
			add("deployment-order", fmt.Sprintf("GetFS/GetMain return %v / %v", fsNames, mainNames), map[string]any{})
		}
	}
	// ---- 4. versions ----
	want, verr := repoVersion()
	if verr != nil {
		// without the repository version the clause cannot be judged: that is a harness error, not a pass
		hpanic("C15: repository version: %v", verr)
	} else {
		for _, src := range []string{"fresh", "embedded"} {
			set := map[string]*Compiled{}
			for _, n := range all {
				if src == "embedded" {
					set[n] = emb[n]
				} else {
					set[n] = CompileDir(Repo, n)
				}
			}
			vs, failure := contractVersions(set)
			if failure != "" {
				// the set cannot be deployed at all: one violation (the order clause above usually names the cause), not eleven
				res.evals++
				add("version-unreadable", fmt.Sprintf("the %s contract set cannot be deployed to read version(): %s", src, failure), map[string]any{"artefact": src})
				continue
			}
			for _, n := range all {
				res.evals++
				res.nontrivial["version/"+src+"/"+n] = true
				if vs[n] != want {
					add("version-mismatch", fmt.Sprintf("%s contract %s reports version %d, the repository version is %d", src, n, vs[n], want), map[string]any{"contract": n, "artefact": src})
				}
			}
		}
	}
	// ---- 5. bindings ----
	for _, n := range all {
		nv, vs := checkBinding(n)
		res.evals += nv
		res.nontrivial["binding/"+n] = true
		res.violations = append(res.violations, vs...)
	}
	// ---- 6. what the package hands out is the caller's own: a caller that edits its copy in place (as a deployment
	// tool adding groups does) must not change what the next caller gets. Done last: it scribbles over one result ----
	for gi, get := range []func() ([]contracts.Contract, error){contracts.GetFS, contracts.GetMain} {
		which := []string{"GetFS", "GetMain"}[gi]
		a, err := get()
		if err != nil {
			hpanic("C15: %s: %v", which, err)
		}
		var before []string
		for i := range a {
			nb, _ := a[i].NEF.Bytes()
			before = append(before, fmt.Sprintf("%x|%s", nb, manifestJSON(&a[i].Manifest)))
		}
		for i := range a {
			for j := range a[i].NEF.Script {
				a[i].NEF.Script[j] ^= 0xff
			}
			for j := range a[i].Manifest.ABI.Methods {
				a[i].Manifest.ABI.Methods[j].Safe = !a[i].Manifest.ABI.Methods[j].Safe
				a[i].Manifest.ABI.Methods[j].Name = "scribbled"
			}
			for j := range a[i].Manifest.ABI.Events {
				a[i].Manifest.ABI.Events[j].Name = "scribbled"
			}
			for j := range a[i].Manifest.Permissions {
				a[i].Manifest.Permissions[j].Methods.Value = nil
			}
			a[i].Manifest.Name = "scribbled"
		}
		b, err := get()
		if err != nil {
			hpanic("C15: %s (second call): %v", which, err)
		}
		for i := range b {
			res.evals++
			res.nontrivial["getter/"+which+"/"+fmt.Sprint(i)] = true
			nb, _ := b[i].NEF.Bytes()
			if i >= len(before) || fmt.Sprintf("%x|%s", nb, manifestJSON(&b[i].Manifest)) != before[i] {
				add("getter-shares-data", fmt.Sprintf("contracts.%s(): after a caller edited the result of one call in place, the next call returns contract #%d changed", which, i), map[string]any{"getter": which})
				break
			}
		}
	}
	return finishC15(tier, seed, res, t0)
}

func finishC15(tier string, seed int64, res *c15Result, t0 time.Time) int {
	cov := map[string]any{
		"evaluations": res.evals, "distinct_nontrivial": len(res.nontrivial),
		"rule":    "11 contracts x {script+tokens, manifest} compared with a fresh compilation; differential execution over the method table x integer boundary values for every contract whose script differs; the returned deployment order and all its adjacent transpositions deployed on a fresh chain; version() of every embedded and fresh contract; every generated binding regenerated and every binding method matched against the manifest ABI; distinct = one artefact / order / version / binding item",
		"samples": res.samples, "exhaustive": true, "programs": 11, "disagreements_checked": res.notes["differential_executions"],
		"states": len(res.nontrivial), "transitions": res.evals, "traces_validated_against_impl": 0, "details": res.notes, "repo": Repo,
	}
	if cov["disagreements_checked"] == nil {
		cov["disagreements_checked"] = 0
	}
	WriteEvidence(&Evidence{PropertyID: "C15", Tier: tier, Seed: seed, Level: "model_checking", Coverage: cov,
		Assumptions: append(append([]string{}, BaseAssumptions...), "the neo-go v0.107.0 rpcbinding generator is the reference for the bindings' bytes; the AST check is independent of it"),
		WallS:       time.Since(t0).Seconds(), Violations: len(res.violations)})
	fmt.Printf("C15 %s: evaluations=%d distinct=%d notes=%v wall=%.1fs\n", tier, res.evals, len(res.nontrivial), summarize(res.notes), time.Since(t0).Seconds())
	if len(res.violations) == 0 {
		return 0
	}
	seen := map[string]bool{}
	for _, v := range res.violations {
		k := v.Class + fmt.Sprint(v.Where)
		if seen[k] {
			continue
		}
		seen[k] = true
		p := WriteReplay("C15", "artefacts", map[string]any{"tier": tier}, v, nil)
		fmt.Printf("  %s\n", v.String())
		fmt.Printf("VIOLATION property=C15 replay=%s\n", p)
	}
	return 1
}

func summarize(m map[string]any) string {
	var ks []string
	for k, v := range m {
		if k == "artefacts" {
			continue
		}
		ks = append(ks, fmt.Sprintf("%s=%v", k, v))
	}
	sort.Strings(ks)
	return strings.Join(ks, " ")
}

func manifestDiff(a, b *manifest.Manifest) string {
	var out []string
	am, bm := map[string]string{}, map[string]string{}
	for _, m := range a.ABI.Methods {
		j, _ := json.Marshal(m)
		am[fmt.Sprintf("%s/%d", m.Name, len(m.Parameters))] = string(j)
	}
	for _, m := range b.ABI.Methods {
		j, _ := json.Marshal(m)
		bm[fmt.Sprintf("%s/%d", m.Name, len(m.Parameters))] = string(j)
	}
	for k, v := range am {
		if bv, ok := bm[k]; !ok {
			out = append(out, "shipped has extra method "+k)
		} else if bv != v {
			out = append(out, "method "+k+" differs")
		}
	}
	for k := range bm {
		if _, ok := am[k]; !ok {
			out = append(out, "shipped lacks method "+k)
		}
	}
	ae, _ := json.Marshal(a.ABI.Events)
	be, _ := json.Marshal(b.ABI.Events)
	if string(ae) != string(be) {
		out = append(out, "events differ")
	}
	ap, _ := json.Marshal(a.Permissions)
	bp, _ := json.Marshal(b.Permissions)
	if string(ap) != string(bp) {
		out = append(out, "permissions differ")
	}
	if a.Name != b.Name {
		out = append(out, "names differ")
	}
	sort.Strings(out)
	if len(out) > 6 {
		out = append(out[:6], "...")
	}
	if len(out) == 0 {
		return "(difference outside ABI/events/permissions)"
	}
	return strings.Join(out, "; ")
}

func repoVersion() (int64, error) {
	b, err := os.ReadFile(filepath.Join(Repo, "VERSION"))
	if err != nil {
		return 0, err
	}
	m := regexp.MustCompile(`v?(\d+)\.(\d+)\.(\d+)`).FindStringSubmatch(string(b))
	if m == nil {
		return 0, fmt.Errorf("VERSION file %q not understood", b)
	}
	a, _ := strconv.ParseInt(m[1], 10, 64)
	c, _ := strconv.ParseInt(m[2], 10, 64)
	d, _ := strconv.ParseInt(m[3], 10, 64)
	return a*1_000_000 + c*1_000 + d, nil
}

// deployArgs: what a contract needs at deployment when every address is resolved through NNS.
func deployArgsNNS(w *World, name string) any {
	switch name {
	case "nns":
		return []any{[]any{[]any{"neofs", "ops@x.y"}}}
	case "netmap":
		return []any{false, util.Uint160{}, util.Uint160{}, []any{}, []any{}}
	case "balance", "reputation", "audit", "neofsid":
		return []any{false}
	case "container":
		return []any{false}
	case "alphabet":
		return []any{false, nil, nil, "az", int64(0), int64(1)}
	case "proxy":
		return nil
	case "neofs":
		var ks []any
		for _, k := range w.Pubs {
			ks = append(ks, k.Bytes())
		}
		return []any{false, util.Uint160{1}, ks, []any{}}
	case "processing":
		return []any{util.Uint160{2}}
	}
	return nil
}

// tryDeployOrder deploys the given contracts in order on a fresh chain, registering each in
// NNS after its deployment, as the deployment procedure does.
func tryDeployOrder(set map[string]*Compiled, order []string) (ok bool, msg string) {
	defer func() {
		if r := recover(); r != nil {
			ok, msg = false, fmt.Sprint(r)
		}
	}()
	w := NewWorld(1)
	defer w.Close()
	for _, n := range order {
		c, have := set[n]
		if !have {
			return false, "no such contract " + n
		}
		if n != "nns" && w.Contracts["nns"] == nil {
			return false, n + " before NNS"
		}
		d := w.Deploy(n, c, deployArgsNNS(w, n))
		if n != "nns" {
			w.RegisterNNS(n, d.Hash)
		}
	}
	return true, ""
}

func contractVersions(set map[string]*Compiled) (out map[string]int64, failure string) {
	out = map[string]int64{}
	defer func() {
		if r := recover(); r != nil {
			failure = fmt.Sprint(r)
		}
	}()
	w := NewWorld(1)
	defer w.Close()
	for _, n := range append(append([]string{}, fsOrder...), mainOrder...) {
		d := w.Deploy(n, set[n], deployArgsNNS(w, n))
		if n != "nns" {
			w.RegisterNNS(n, d.Hash)
		}
	}
	w.Freeze()
	for n, d := range w.Contracts {
		r := w.Read(w.Root, w.H, w.TS, d.Hash, "version")
		if v, ok := AsInt(r.Ret0()); ok {
			out[n] = v.Int64()
		} else {
			out[n] = -1
		}
	}
	return out, ""
}

// ---------- bindings ----------

func checkBinding(name string) (int, []*Violation) {
	var vs []*Violation
	where := map[string]any{"contract": name}
	src := filepath.Join(Repo, "contracts", name)
	have, err := os.ReadFile(filepath.Join(Repo, "rpc", name, "rpcbinding.go"))
	if err != nil {
		return 1, []*Violation{Viol("binding-missing", err.Error(), where)}
	}
	// (a) regenerate with the library generator, exactly the Makefile's two steps
	tmp, err := os.MkdirTemp("", "verif-c15-")
	if err != nil {
		hpanic("mktemp: %v", err)
	}
	defer os.RemoveAll(tmp)
	conf, err := clisc.ParseContractConfig(filepath.Join(src, "config.yml"))
	if err != nil {
		hpanic("config %s: %v", name, err)
	}
	o := &compiler.Options{Outfile: filepath.Join(tmp, "contract.nef"), ManifestFile: filepath.Join(tmp, "manifest.json"), BindingsFile: filepath.Join(tmp, "bindings_config.yml"),
		Name: conf.Name, SourceURL: conf.SourceURL, ContractEvents: conf.Events, DeclaredNamedTypes: conf.NamedTypes, ContractSupportedStandards: conf.SupportedStandards,
		SafeMethods: conf.SafeMethods, Overloads: conf.Overloads}
	o.Permissions = make([]manifest.Permission, len(conf.Permissions))
	for i := range conf.Permissions {
		o.Permissions[i] = manifest.Permission(conf.Permissions[i])
	}
	compMu.Lock()
	config.Version = "0.107.0"
	_, err = compiler.CompileAndSave(src, o)
	compMu.Unlock()
	if err != nil {
		hpanic("compile %s for bindings: %v", name, err)
	}
	cfg := binding.NewConfig()
	bs, _ := os.ReadFile(filepath.Join(tmp, "bindings_config.yml"))
	dec := yaml.NewDecoder(bytes.NewReader(bs))
	dec.KnownFields(true)
	if err := dec.Decode(&cfg); err != nil {
		hpanic("bindings config %s: %v", name, err)
	}
	m := CompileDir(Repo, name).Manifest
	cfg.Manifest = m
	var buf bytes.Buffer
	cfg.Output = &buf
	if err := rpcbinding.Generate(cfg); err != nil {
		hpanic("generate binding %s: %v", name, err)
	}
	n := 1
	if !bytes.Equal(buf.Bytes(), have) {
		vs = append(vs, Viol("binding-stale", fmt.Sprintf("rpc/%s/rpcbinding.go is not what the generator produces from the sources", name), where))
	}
	// (b) independently: every contract method name the binding invokes exists in the manifest with that arity
	fset := token.NewFileSet()
	f, err := parser.ParseFile(fset, "rpcbinding.go", have, 0)
	if err != nil {
		return n, append(vs, Viol("binding-unparsable", err.Error(), where))
	}
	arity := map[string]map[int]bool{}
	for _, mt := range m.ABI.Methods {
		if arity[mt.Name] == nil {
			arity[mt.Name] = map[int]bool{}
		}
		arity[mt.Name][len(mt.Parameters)] = true
	}
	// selector -> number of leading arguments up to and including the method literal (hash, method): the literal is
	// always the second argument; MakeUnsignedCall carries one more (attrs) before the contract arguments
	invokers := map[string]int{"Call": 2, "MakeCall": 2, "SendCall": 2, "MakeUnsignedCall": 2, "CallAndExpandIterator": 2}
	ast.Inspect(f, func(nd ast.Node) bool {
		call, ok := nd.(*ast.CallExpr)
		if !ok {
			return true
		}
		sel, ok := call.Fun.(*ast.SelectorExpr)
		if !ok {
			return true
		}
		skip, known := invokers[sel.Sel.Name]
		if !known || skip < 0 || len(call.Args) < skip {
			return true
		}
		lit, ok := call.Args[skip-1].(*ast.BasicLit)
		if !ok || lit.Kind != token.STRING {
			return true
		}
		method, _ := strconv.Unquote(lit.Value)
		nargs := len(call.Args) - skip
		if sel.Sel.Name == "CallAndExpandIterator" {
			nargs-- // trailing max-items argument
		}
		if sel.Sel.Name == "MakeUnsignedCall" {
			nargs-- // (hash, method, attrs, args...): attrs precede the arguments
		}
		n++
		if arity[method] == nil {
			vs = append(vs, Viol("binding-method-unknown", fmt.Sprintf("rpc/%s calls contract method %q, which the manifest does not have", name, method), map[string]any{"contract": name, "method": method}))
		} else if !arity[method][nargs] {
			// variadic spreads cannot be counted statically: only flag when no ellipsis is used
			if call.Ellipsis == token.NoPos {
				vs = append(vs, Viol("binding-arity", fmt.Sprintf("rpc/%s calls %q with %d arguments; the manifest has arities %v", name, method, nargs, keysOf(arity[method])), map[string]any{"contract": name, "method": method}))
			}
		}
		return true
	})
	return n, vs
}

func keysOf(m map[int]bool) []int {
	var k []int
	for i := range m {
		k = append(k, i)
	}
	sort.Ints(k)
	return k
}

// ---------- differential execution embedded vs fresh ----------

func differentialRun(emb map[string]*Compiled, differing []string, tier string) (int, []*Violation) {
	run := func(useEmbedded bool) map[string]string {
		compMu.Lock()
		compileOverride = map[string]*Compiled{}
		if useEmbedded {
			for _, n := range differing {
				compileOverride[n] = emb[n]
			}
		}
		compMu.Unlock()
		defer func() {
			compMu.Lock()
			compileOverride = map[string]*Compiled{}
			compMu.Unlock()
		}()
		d := NewAuthGrid(3)
		out := map[string]string{}
		w := d.Build()
		defer w.Close()
		root := gridRoot(w)
		mask := func(s string) string {
			s = faultPos.ReplaceAllString(s, "") // where in the script a fault was raised is not behaviour
			for n, c := range w.Contracts {
				s = strings.ReplaceAll(s, Hx(c.Hash.BytesBE()), "<"+n+">")
				s = strings.ReplaceAll(s, Hx(c.Hash.BytesLE()), "<"+n+">")
				s = strings.ReplaceAll(s, c.Hash.StringLE(), "<"+n+">")
			}
			return s
		}
		for ri, r := range d.rows {
			in := false
			for _, n := range differing {
				if r.Contract == n {
					in = true
				}
			}
			if !in {
				continue
			}
			base := r.Args(d, w)
			variants := [][]any{base}
			for ai, a := range base {
				if _, ok := a.(int64); ok {
					for _, v := range []int64{-1, 0, 1, 9000, 9001, 1 << 40} {
						alt := append([]any{}, base...)
						alt[ai] = v
						variants = append(variants, alt)
					}
				}
			}
			for vi, args := range variants {
				for _, set := range []string{"K+AL+CM", "S"} {
					var named []util.Uint160
					for _, altReq := range r.Req {
						for _, s := range altReq {
							if s != "AL" && s != "CM" && s != "any" {
								named = append(named, d.resolve(w, s)...)
							}
						}
					}
					signers := d.witnesses(w, set, named)
					o := w.Run(root.L, root.H, root.TS, Script(w.Contracts[r.Contract].Hash, r.Method, args...), signers...)
					dg := o.Digest()
					if o.Halt {
						dg += " diff=" + fmt.Sprint(DiffDumps(w.FullDump(root.L), w.FullDump(o.Layer)))
					}
					out[fmt.Sprintf("%s.%s#%d/v%d/%s", r.Contract, r.Method, ri, vi, set)] = mask(dg)
				}
			}
		}
		return out
	}
	a, b := run(true), run(false)
	var vs []*Violation
	var keys []string
	for k := range b {
		keys = append(keys, k)
	}
	sort.Strings(keys)
	for _, k := range keys {
		if a[k] != b[k] {
			c := strings.SplitN(k, ".", 2)[0]
			vs = append(vs, Viol("embedded-behaves-differently", fmt.Sprintf("%s: shipped executable: %.300s | sources: %.300s", k, a[k], b[k]), map[string]any{"contract": c, "call": k}))
			if len(vs) >= 10 {
				break
			}
		}
	}
	return len(a) + len(b), vs
}

var faultPos = regexp.MustCompile(`at instruction \d+ \([A-Z0-9_]+\): `)

type dualSpec struct {
	name  string
	mk    func() Driver
	depth int
}

func dualDriversFor(contract string) []dualSpec {
	switch contract {
	case "balance":
		return []dualSpec{{"balance", func() Driver { return NewBalDriver("C01") }, 3}, {"balance-locks", func() Driver { return NewBalDriver("C09") }, 4}}
	case "netmap":
		return []dualSpec{{"netmap-tick", func() Driver { return NewTickDriver("C06") }, 4}, {"netmap-candidates", func() Driver { return NewTickDriver("C07") }, 4},
			{"netmap-history", func() Driver { return NewSnapDriver([]int{1, 2, 3, 5, 10, 12}, 8, 2) }, 10}, {"store-config", func() Driver { return NewCfgDriver() }, 2}}
	case "container":
		return []dualSpec{{"container-registry", func() Driver { return NewCntDriver() }, 4}, {"container-roster", func() Driver { return NewRosterDriver() }, 3},
			{"store-estimations", func() Driver { return NewEstDriver("quick") }, 3}}
	case "nns":
		return []dualSpec{{"nns-lifecycle", func() Driver { return NewNNSDriver("C10") }, 3}, {"nns-auth", func() Driver { return NewNNSDriver("C11") }, 2},
			{"nns-records", func() Driver { return NewNNSDriver("C12r") }, 3}, {"nns-cname", func() Driver { return NewNNSDriver("C12c") }, 4}}
	case "neofs":
		return []dualSpec{{"neofs-votes-n2", func() Driver { return NewVoteDriver(2, false, true) }, 4}, {"neofs-gas-notary-n1", func() Driver { return NewGasDriver(true, 1) }, 3},
			{"neofs-gas-legacy-n1", func() Driver { return NewGasDriver(false, 1) }, 3}, {"store-config", func() Driver { return NewCfgDriver() }, 2}}
	case "reputation":
		return []dualSpec{{"store-reputation", func() Driver { return NewRepDriver("quick") }, 2}}
	case "audit":
		return []dualSpec{{"store-audit", func() Driver { return NewAudDriver("quick") }, 2}}
	case "neofsid":
		return []dualSpec{{"store-neofsid", func() Driver { return NewIDDriver() }, 3}}
	}
	return nil // alphabet, proxy, processing: covered by the method-table differential above
}

func dualWorldRun(emb map[string]*Compiled, differing []string, tier string) (int, []*Violation) {
	n := 0
	var vs []*Violation
	for _, c := range differing {
		for _, sp := range dualDriversFor(c) {
			run := func(useEmbedded bool) *Stats {
				ScriptOverride = map[string]*Compiled{}
				if useEmbedded {
					ScriptOverride[c] = emb[c]
				}
				defer func() { ScriptOverride = map[string]*Compiled{} }()
				o := Options{Property: "C15", Tier: tier, Workers: Workers(), Depth: sp.depth, ConfCap: 0, TraceAll: true, Deadline: 5 * time.Minute}
				return Explore(sp.mk, o, LoadFindingsAs(propertyOfDriver(sp.name), "C15"))
			}
			a, b := run(false), run(true)
			n += a.Transitions + b.Transitions
			var keys []string
			for k := range a.Trace {
				keys = append(keys, k)
			}
			sort.Slice(keys, func(i, j int) bool {
				if len(keys[i]) != len(keys[j]) {
					return len(keys[i]) < len(keys[j])
				}
				return keys[i] < keys[j]
			})
			for _, k := range keys {
				if bv, ok := b.Trace[k]; ok && bv != a.Trace[k] {
					vs = append(vs, Viol("embedded-behaves-differently", fmt.Sprintf("driver %s, operation path %s: sources: %s | shipped executable: %s", sp.name, k, a.Trace[k], bv),
						map[string]any{"contract": c, "driver": sp.name, "path": k}))
					break
				}
			}
			if len(vs) > 0 {
				return n, vs
			}
		}
	}
	return n, vs
}

// dualGridsFor lists the exhaustive grids that exercise a contract: they are evaluated once on the sources and
// once on the shipped executable, and every case must end the same way.
func dualGridsFor(contract string) map[string]func() GridDriver {
	m := dualGridsOf(contract)
	if m == nil {
		m = map[string]func() GridDriver{}
	}
	// the update hook runs only when an older deployment is updated: every (version, legacy storage) case of the
	// upgrade grid is updated once to the sources and once to the shipped executable
	m["upgrade-window"] = func() GridDriver { return &UpGrid{only: contract} }
	return m
}

func dualGridsOf(contract string) map[string]func() GridDriver {
	switch contract {
	case "nns":
		return map[string]func() GridDriver{"nns-validators": func() GridDriver { return NewValGrid() }}
	case "container":
		return map[string]func() GridDriver{"placement-signatures": func() GridDriver { return NewSigGrid() }, "container-fee-n4": func() GridDriver { return NewFeeGrid(4) }}
	case "balance", "netmap":
		return map[string]func() GridDriver{"container-fee-n4": func() GridDriver { return NewFeeGrid(4) }}
	case "alphabet", "proxy", "processing":
		return map[string]func() GridDriver{"alphabet-emit": func() GridDriver { return NewEmitGrid() }}
	}
	return nil
}

// evalGridAll evaluates every case of a grid (current ScriptOverride in force) and returns outcome + violation
// classes per case.
func evalGridAll(mk func() GridDriver, tier string) map[string]string {
	d0 := mk()
	cases := d0.Cases(tier)
	res := make([]string, len(cases))
	var wg sync.WaitGroup
	var mu sync.Mutex
	var perr any
	idx := 0
	nw := Workers()
	if nw > len(cases) {
		nw = len(cases)
	}
	for k := 0; k < nw; k++ {
		wg.Add(1)
		go func() {
			defer wg.Done()
			defer func() {
				if r := recover(); r != nil {
					mu.Lock()
					if perr == nil {
						perr = r
					}
					mu.Unlock()
				}
			}()
			d := mk()
			w := d.Build()
			defer w.Close()
			for {
				mu.Lock()
				i := idx
				idx++
				mu.Unlock()
				if i >= len(cases) {
					return
				}
				r := d.Eval(&Exec{W: w}, gridRoot(w), cases[i])
				o := r.Outcome
				for _, v := range r.V {
					o += " !" + v.Class
				}
				if r.Digest != "" {
					o += " state " + r.Digest
				}
				res[i] = o
			}
		}()
	}
	wg.Wait()
	if perr != nil {
		panic(perr)
	}
	out := map[string]string{}
	for i, c := range cases {
		out[c.Name] = res[i]
	}
	return out
}

func dualGridRun(emb map[string]*Compiled, differing []string, tier string) (int, []*Violation) {
	n := 0
	for _, c := range differing {
		grids := dualGridsFor(c)
		var names []string
		for g := range grids {
			names = append(names, g)
		}
		sort.Strings(names)
		for _, g := range names {
			run := func(useEmbedded bool) (res map[string]string, refused string) {
				ScriptOverride = map[string]*Compiled{}
				if useEmbedded {
					ScriptOverride[c] = emb[c]
				}
				defer func() {
					ScriptOverride = map[string]*Compiled{}
					if r := recover(); r != nil {
						sr, ok := r.(SetupRefused)
						if !ok {
							panic(r)
						}
						refused = sr.Error()
					}
				}()
				return evalGridAll(grids[g], "quick"), ""
			}
			a, ra := run(false)
			b, rb := run(true)
			if ra != rb {
				return n, []*Violation{Viol("embedded-behaves-differently", fmt.Sprintf("grid %s: preparing the base state: sources %q | shipped executable %q", g, ra, rb), map[string]any{"contract": c, "grid": g})}
			}
			n += len(a) + len(b)
			var keys []string
			for k := range a {
				keys = append(keys, k)
			}
			sort.Strings(keys)
			for _, k := range keys {
				if a[k] != b[k] {
					return n, []*Violation{Viol("embedded-behaves-differently", fmt.Sprintf("grid %s, case %s: sources: %s | shipped executable: %s", g, k, a[k], b[k]), map[string]any{"contract": c, "grid": g, "case": k})}
				}
			}
		}
	}
	return n, nil
}

// propertyOfDriver tells under which property a driver's known findings are listed.
func propertyOfDriver(name string) string {
	switch {
	case strings.HasPrefix(name, "balance-locks"):
		return "C09"
	case strings.HasPrefix(name, "nns-records"), strings.HasPrefix(name, "nns-cname"):
		return "C12"
	case strings.HasPrefix(name, "store-"):
		return "C20"
	}
	return ""
}
