package engine

import (
	"fmt"
	"sort"

	"github.com/nspcc-dev/neo-go/pkg/util"
	"github.com/nspcc-dev/neo-go/pkg/vm/stackitem"
)

// C08: snapshot history across count changes. Histories tick^a resize tick^b resize tick^c
// explored as a prefix tree (BFS with state de-duplication).

type snapModel struct {
	cur, n, keep int
	resizes      int
}

func (m *snapModel) Clone() Model { c := *m; return &c }
func (m *snapModel) Key() []byte {
	return []byte{byte(m.resizes), byte(m.keep), byte(m.keep >> 8), byte(m.n), byte(m.n >> 8), byte(m.cur)}
}

type SnapDriver struct {
	counts     []int
	maxEpochs  int
	maxResizes int
	node       *Account
	node1      *Account
	light      bool // long histories: only the cheap part of the read-back after this step
}

func NewSnapDriver(counts []int, maxEpochs, maxResizes int) *SnapDriver {
	return &SnapDriver{counts: counts, maxEpochs: maxEpochs, maxResizes: maxResizes}
}

func (d *SnapDriver) Build() *World {
	w := NewWorld(1)
	w.Deploy("nns", CompileDir(Repo, "nns"), []any{[]any{[]any{"neofs", "ops@x.y"}}})
	dn := w.Deploy("netmap", CompileDir(Repo, "netmap"), []any{false, util.Uint160{}, util.Uint160{}, []any{}, []any{}})
	w.RegisterNNS("netmap", dn.Hash)
	d.node = w.Acct("node0")
	d.node1 = w.Acct("node1") // present in the maps of odd epochs only
	w.Freeze()
	return w
}
func (d *SnapDriver) Init(w *World) Model { return &snapModel{n: 10} }
func (d *SnapDriver) NumOps() int         { return 1 + len(d.counts) + 2 }
func (d *SnapDriver) OpName(n *Node, i int) string {
	m := n.M.(*snapModel)
	switch {
	case i == 0:
		return fmt.Sprintf("tick(%d)", m.cur+1)
	case i <= len(d.counts):
		return fmt.Sprintf("updateSnapshotCount(%d)", d.counts[i-1])
	case i == len(d.counts)+1:
		return "updateSnapshotCount(-1)"
	default:
		return "updateSnapshotCount(3) by stranger"
	}
}
func (d *SnapDriver) Enabled(n *Node, i int) bool {
	m := n.M.(*snapModel)
	if i == 0 {
		return m.cur < d.maxEpochs
	}
	return m.resizes < d.maxResizes
}

// has0 / has1: is the first / second node in the map published for epoch e (nobody is in the maps of epochs 4, 9, 14, ...)
func (d *SnapDriver) has0(e int) bool { return e >= 1 && e%5 != 4 }
func (d *SnapDriver) has1(e int) bool { return e >= 1 && e%5 != 4 && e%2 == 1 }

func (d *SnapDriver) blob(e int) []byte {
	b := append([]byte{0, 0}, d.node.Pub()...)
	return append(b, byte(e), byte(e>>8), 0xEE)
}

func (d *SnapDriver) blob1(e int) []byte {
	b := append([]byte{0, 0}, d.node1.Pub()...)
	return append(b, byte(e), byte(e>>8), 0xDD)
}

func (d *SnapDriver) Step(x *Exec, n *Node, i int) StepResult {
	w := x.W
	m := n.M.(*snapModel)
	nm := m.Clone().(*snapModel)
	h := w.Contracts["netmap"].Hash
	A := []util.Uint160{w.Alpha}
	where := map[string]any{"count": m.n}
	viol := func(class, msg string) StepResult {
		return StepResult{V: Viol(class, msg, where), Outcome: "violation"}
	}
	cur := n
	outcome := "HALT"
	switch {
	case i == 0:
		e := m.cur + 1
		// the first node announces itself anew for every epoch, the second node joins for odd epochs and leaves for even
		// ones (maps of one and of two nodes alternate), and every fifth epoch (4, 9, 14, ...) is published with nobody
		// in it (an empty map has to overwrite whatever its ring slot held)
		n2 := cur
		do := func(cs ...Call) {
			for _, c := range cs {
				var oo Obs
				if oo, n2 = x.Do(n2, c); !oo.Halt {
					hpanic("C08 setup %s: %s", c.Label, oo.Fault)
				}
			}
		}
		if d.has0(e) {
			do(Call{Script: Script(h, "addPeerIR", d.blob(e)), Signers: A, Label: "addPeerIR"},
				Call{Script: Script(h, "addNode", []any{[]any{fmt.Sprintf("e%d", e)}, stackitem.NewMap(), d.node.Pub(), int64(1)}), Signers: []util.Uint160{w.Alpha, d.node.Hash}, Label: "addNode"})
		} else if d.has0(e - 1) {
			do(Call{Script: Script(h, "updateStateIR", int64(2), d.node.Pub()), Signers: A, Label: "node0 goes offline"})
		}
		if d.has1(e) {
			do(Call{Script: Script(h, "addPeerIR", d.blob1(e)), Signers: A, Label: "addPeerIR(node1)"},
				Call{Script: Script(h, "addNode", []any{[]any{fmt.Sprintf("f%d", e)}, stackitem.NewMap(), d.node1.Pub(), int64(1)}), Signers: []util.Uint160{w.Alpha, d.node1.Hash}, Label: "addNode(node1)"})
		} else if d.has1(e - 1) {
			do(Call{Script: Script(h, "updateStateIR", int64(2), d.node1.Pub()), Signers: A, Label: "node1 goes offline"})
		}
		o3, n3 := x.Do(n2, Call{Script: Script(h, "newEpoch", int64(e)), Signers: A, Label: fmt.Sprintf("newEpoch(%d)", e)})
		if !o3.Halt {
			return viol("tick-failed", fmt.Sprintf("newEpoch(%d) with count %d: %s", e, m.n, o3.Fault))
		}
		cur = n3
		nm.cur = e
		if nm.keep+1 <= nm.n {
			nm.keep++
		} else {
			nm.keep = nm.n
		}
	default:
		c := -1
		signers := A
		if i <= len(d.counts) {
			c = d.counts[i-1]
		} else if i == len(d.counts)+2 {
			c = 3
			signers = []util.Uint160{w.Acct("S").Hash}
		}
		where["new_count"] = c
		o, n1 := x.Do(cur, Call{Script: Script(h, "updateSnapshotCount", int64(c)), Signers: signers, Label: d.OpName(n, i)})
		if !o.Halt {
			// a refused resize must change nothing; refusing is the contract's right
			if df := DiffDumps(w.FullDump(n.L), w.FullDump(n1.L)); len(df) > 0 {
				return viol("refused-but-changed", fmt.Sprint(df))
			}
			n1.M = m
			return StepResult{Next: n1, Outcome: "FAULT"}
		}
		if c < 0 || len(signers) == 0 || signers[0] != w.Alpha {
			return viol("resize-accepted", fmt.Sprintf("%s was accepted", d.OpName(n, i)))
		}
		cur = n1
		nm.resizes++
		nm.n = c
		if nm.keep > c {
			nm.keep = c
		}
		// any accepted count must leave the contract able to tick again
		pr := w.Run(cur.L, cur.H, cur.TS, Script(h, "newEpoch", int64(m.cur+1)), A...)
		if !pr.Halt {
			return viol("resize-bricks-tick", fmt.Sprintf("after updateSnapshotCount(%d) newEpoch faults: %s", c, pr.Fault))
		}
	}
	if d.light {
		// the cheap read-back: the newest map and the newest per-epoch list
		if nm.keep > 0 {
			r := w.Read(cur.L, cur.H, cur.TS, h, "netmap")
			l, _ := r.Ret0().([]any)
			want := 0
			if d.has0(nm.cur) {
				want++
			}
			if d.has1(nm.cur) {
				want++
			}
			if !r.Halt || len(l) != want {
				return viol("netmap-not-newest", fmt.Sprintf("netmap() holds %d nodes at epoch %d, want %d (%s)", len(l), nm.cur, want, r.Fault))
			}
			r = w.Read(cur.L, cur.H, cur.TS, h, "listNodes")
			l, _ = r.Ret0().([]any)
			if !r.Halt || len(l) != want {
				return viol("listNodes-wrong", fmt.Sprintf("listNodes() holds %d nodes at epoch %d, want %d (%s)", len(l), nm.cur, want, r.Fault))
			}
		}
		cur.M = nm
		return StepResult{Next: cur, Outcome: outcome, Changed: true}
	}
	// ---- read API vs model ----
	// maps are compared as sets of entries (the order follows the keys, which is not part of the statement)
	asSet := func(v any) string {
		l, _ := v.([]any)
		var ss []string
		for _, e := range l {
			ss = append(ss, fmt.Sprint(e))
		}
		sort.Strings(ss)
		return fmt.Sprint(ss)
	}
	legacyL := func(e int) []any {
		l := []any{}
		if d.has0(e) {
			l = append(l, []any{NX(d.blob(e)), "i1"})
		}
		if d.has1(e) {
			l = append(l, []any{NX(d.blob1(e)), "i1"})
		}
		return l
	}
	legacy := func(e int) any { return asSet(legacyL(e)) }
	v2 := func(e int) string {
		l := []any{}
		if d.has0(e) {
			l = append(l, []any{[]any{NXs(fmt.Sprintf("e%d", e))}, []any{"map"}, NX(d.node.Pub()), "i1"})
		}
		if d.has1(e) {
			l = append(l, []any{[]any{NXs(fmt.Sprintf("f%d", e))}, []any{"map"}, NX(d.node1.Pub()), "i1"})
		}
		return asSet(l)
	}
	empty := func(v any) bool { a, ok := v.([]any); return ok && len(a) == 0 }
	rd := func(method string, args ...any) Obs { return w.Read(cur.L, cur.H, cur.TS, h, method, args...) }
	for dd := -1; dd <= nm.n+1; dd++ {
		r := rd("snapshot", int64(dd))
		where := map[string]any{"n": nm.n, "keep": nm.keep, "d": dd}
		switch {
		case dd < 0 || dd >= nm.n:
			if r.Halt && !empty(r.Ret0()) {
				return StepResult{V: Viol("snapshot-out-of-range-answered", fmt.Sprintf("snapshot(%d) with count %d returned %v", dd, nm.n, r.Stack), where)}
			}
		case dd < nm.keep:
			if !r.Halt || asSet(r.Ret0()) != legacy(nm.cur-dd) {
				return StepResult{V: Viol("snapshot-wrong", fmt.Sprintf("cur=%d snapshot(%d) = %v (fault %q), want map of epoch %d", nm.cur, dd, r.Stack, r.Fault, nm.cur-dd), where)}
			}
		default:
			if r.Halt && !empty(r.Ret0()) {
				return StepResult{V: Viol("snapshot-resurrected", fmt.Sprintf("cur=%d keep=%d snapshot(%d) = %v", nm.cur, nm.keep, dd, r.Stack), where)}
			}
		}
	}
	if nm.keep > 0 {
		if r := rd("netmap"); asSet(r.Ret0()) != legacy(nm.cur) {
			return viol("netmap-not-newest", fmt.Sprintf("netmap() = %v want map of epoch %d", r.Stack, nm.cur))
		}
	}
	for e := nm.cur - nm.n - 2; e <= nm.cur+1; e++ {
		if e < 0 {
			continue
		}
		where := map[string]any{"n": nm.n, "keep": nm.keep, "epoch_back": nm.cur - e}
		live := e > nm.cur-nm.keep && e <= nm.cur && e >= 1
		se := rd("snapshotByEpoch", int64(e))
		if live {
			if asSet(se.Ret0()) != legacy(e) {
				return StepResult{V: Viol("snapshotByEpoch-wrong", fmt.Sprintf("cur=%d snapshotByEpoch(%d) = %v (fault %q)", nm.cur, e, se.Stack, se.Fault), where)}
			}
		} else if se.Halt && !empty(se.Ret0()) {
			return StepResult{V: Viol("snapshot-resurrected", fmt.Sprintf("cur=%d keep=%d snapshotByEpoch(%d) = %v", nm.cur, nm.keep, e, se.Stack), where)}
		}
		r := rd("listNodes", int64(e))
		if !r.Halt {
			if live {
				return StepResult{V: Viol("listNodes-fault", r.Fault, where)}
			}
			continue // "nothing (empty or an error)" for an epoch outside the history
		}
		got, _ := r.Ret0().([]any)
		if live {
			want := v2(e)
			if asSet(got) != want {
				return StepResult{V: Viol("listNodes-wrong", fmt.Sprintf("cur=%d listNodes(%d) = %v want %v", nm.cur, e, got, want), where)}
			}
		} else if len(got) != 0 {
			return StepResult{V: Viol("listNodes-leak", fmt.Sprintf("cur=%d count=%d keep=%d listNodes(%d) = %v, expected nothing", nm.cur, nm.n, nm.keep, e, got), where)}
		}
	}
	// raw scan: per-epoch lists and ring slots
	var eps []int
	slots := 0
	for _, kv := range w.Dump(cur.L, "netmap") {
		if kv.K[0] == 'p' && len(kv.K) >= 5 {
			eps = append(eps, int(kv.K[1])<<24|int(kv.K[2])<<16|int(kv.K[3])<<8|int(kv.K[4]))
		}
		if len(kv.K) == len("snapshot_")+1 && string(kv.K[:9]) == "snapshot_" {
			slots++
			if int(kv.K[9]) >= nm.n {
				return StepResult{V: Viol("raw-slot-leak", fmt.Sprintf("ring slot %d exists with count %d", kv.K[9], nm.n), map[string]any{"n": nm.n})}
			}
		}
	}
	sort.Ints(eps)
	for _, e := range eps {
		if !(e > nm.cur-nm.keep && e <= nm.cur) {
			return StepResult{V: Viol("raw-p-leak", fmt.Sprintf("cur=%d count=%d keep=%d stored per-epoch lists %v", nm.cur, nm.n, nm.keep, eps), map[string]any{"epoch_back": nm.cur - e})}
		}
	}
	cur.M = nm
	return StepResult{Next: cur, Outcome: outcome, Changed: true}
}

// ---------- C08b: long linear histories (grid) ----------

// LongHistoryGrid runs tick^p, updateSnapshotCount(c), tick^T with the same per-step oracle as the exploration:
// histories of hundreds of epochs with counts around one byte (255, 256, 257, ...), which the breadth-first search
// cannot reach. Every step is judged; the full read-back is made at chosen epochs (around the encoding boundaries
// 127/128 and 255/256 and at a stride), a cheaper one (tick succeeded, newest map, epoch) everywhere else.
type LongHistoryGrid struct{ d *SnapDriver }

type longCase struct {
	Count, Before, After int
	Count2               int // a second resize after the long history (0 = none), followed by 12 more ticks
}

func NewLongHistoryGrid() *LongHistoryGrid {
	return &LongHistoryGrid{d: NewSnapDriver(nil, 1<<30, 1<<30)}
}
func (g *LongHistoryGrid) Name() string { return "netmap-long-history" }
func (g *LongHistoryGrid) Rule() string {
	return "linear histories tick^p, updateSnapshotCount(c), tick^T for counts c in {255,256,257} (quick) / {12,100,255,256,257,266,300} (thorough), p = the ring positions 0..10 (quick: 0,5,9,10), T = 300: every tick must succeed, the complete read-back of the exploration's oracle at epochs around 127/128, 255/256, c and at a stride of 32; non-trivial = the resize was accepted; distinct by case"
}
func (g *LongHistoryGrid) Build() *World { return g.d.Build() }
func (g *LongHistoryGrid) Cases(tier string) []GridCase {
	counts, before := []int{255, 256, 257}, []int{0, 5, 9, 10}
	if tier == "thorough" {
		counts, before = []int{12, 100, 255, 256, 257, 266, 300}, []int{0, 1, 2, 3, 4, 5, 6, 7, 8, 9, 10}
	}
	var out []GridCase
	for _, c := range counts {
		for _, p := range before {
			out = append(out, GridCase{Name: fmt.Sprintf("tick^%d, updateSnapshotCount(%d), tick^300", p, c), Data: longCase{Count: c, Before: p, After: 300}})
		}
	}
	// a second resize at a large ring position (shrinks and a growth by one), then a dozen ticks
	second := [][3]int{{256, 200, 3}, {256, 130, 200}, {255, 200, 256}}
	if tier == "thorough" {
		second = append(second, [3]int{256, 300, 3}, [3]int{256, 255, 255}, [3]int{200, 300, 100}, [3]int{255, 128, 3}, [3]int{100, 300, 256})
	}
	for _, sc := range second {
		out = append(out, GridCase{Name: fmt.Sprintf("tick^9, updateSnapshotCount(%d), tick^%d, updateSnapshotCount(%d), tick^12", sc[0], sc[1], sc[2]), Data: longCase{Count: sc[0], Before: 9, After: sc[1], Count2: sc[2]}})
	}
	return out
}

func (g *LongHistoryGrid) Eval(x *Exec, root *Node, gc GridCase) GridResult {
	c := gc.Data.(longCase)
	d := g.d
	d.counts = []int{c.Count}
	n := &Node{L: root.L, H: root.H, TS: root.TS, M: d.Init(x.W)}
	step := func(op int, full bool) *Violation {
		d.light = !full
		r := d.Step(x, &Node{L: n.L, H: n.H, TS: n.TS, M: n.M.Clone()}, op)
		d.light = false
		if r.V != nil {
			return r.V
		}
		n = r.Next
		return nil
	}
	for i := 0; i < c.Before; i++ {
		if v := step(0, true); v != nil {
			return GridResult{Outcome: "violation", Nontrivial: true, V: []*Violation{v}}
		}
	}
	res := n.M.(*snapModel).resizes
	if v := step(1, true); v != nil {
		return GridResult{Outcome: "violation", Nontrivial: true, V: []*Violation{v}}
	}
	if n.M.(*snapModel).resizes == res {
		return GridResult{Outcome: "resize-refused"}
	}
	for i := 0; i < c.After; i++ {
		e := n.M.(*snapModel).cur + 1
		full := e%32 == 0 || near(e, 127) || near(e, 255) || near(e, c.Count) || near(e, c.Count+c.Before) || i == c.After-1
		if v := step(0, full); v != nil {
			v.Where["epoch"] = e
			return GridResult{Outcome: "violation", Nontrivial: true, V: []*Violation{v}}
		}
	}
	if c.Count2 > 0 {
		d.counts = []int{c.Count2}
		res := n.M.(*snapModel).resizes
		if v := step(1, true); v != nil {
			return GridResult{Outcome: "violation", Nontrivial: true, V: []*Violation{v}}
		}
		if n.M.(*snapModel).resizes == res {
			return GridResult{Outcome: "second-resize-refused", Nontrivial: true}
		}
		for i := 0; i < 12; i++ {
			if v := step(0, true); v != nil {
				return GridResult{Outcome: "violation", Nontrivial: true, V: []*Violation{v}}
			}
		}
	}
	return GridResult{Outcome: "history-exact", Nontrivial: true}
}

func near(e, b int) bool { return e >= b-2 && e <= b+3 }
