package engine

import (
	"encoding/hex"
	"fmt"
	"math/big"
	"sort"
	"strings"

	"github.com/nspcc-dev/neo-go/pkg/compiler"
	"github.com/nspcc-dev/neo-go/pkg/util"
	"github.com/nspcc-dev/neo-go/pkg/vm/stackitem"
)

// C01 / C02 / C09 share the Balance world and reference model; they differ in alphabet.

const balProbeSrc = `package probe

import (
	"github.com/nspcc-dev/neo-go/pkg/interop"
	"github.com/nspcc-dev/neo-go/pkg/interop/contract"
)

func Xfer(bal interop.Hash160, from, to interop.Hash160, amount int) bool {
	return contract.Call(bal, "transfer", contract.All, from, to, amount, nil).(bool)
}

func Tick(bal interop.Hash160, epoch int) {
	contract.Call(bal, "newEpoch", contract.All, epoch)
}
`

// a contract that refuses every payment made to it - should the token ever ask
const balRefuserSrc = `package refuser

import "github.com/nspcc-dev/neo-go/pkg/interop"

func OnNEP17Payment(from interop.Hash160, amount int, data any) {
	panic("no payments, please")
}
`

type lockRec struct {
	until  int64
	parent string
}

type balModel struct {
	bal       map[string]*big.Int // hex(addr) -> balance; presence == a storage record exists
	locks     map[string]lockRec  // lock metadata of a record
	supply    *big.Int
	epoch     int64
	usedLocks int
	bulkDone  bool // the one-shot lockMany operation has run
}

func (m *balModel) Clone() Model {
	c := &balModel{bal: map[string]*big.Int{}, locks: map[string]lockRec{}, supply: new(big.Int).Set(m.supply), epoch: m.epoch, usedLocks: m.usedLocks, bulkDone: m.bulkDone}
	for k, v := range m.bal {
		c.bal[k] = new(big.Int).Set(v)
	}
	for k, v := range m.locks {
		c.locks[k] = v
	}
	return c
}
func (m *balModel) Key() []byte {
	// lock metadata is part of the key: the contract's copy is only observable at the next tick
	ks := make([]string, 0, len(m.locks))
	for k := range m.locks {
		ks = append(ks, k)
	}
	sort.Strings(ks)
	s := fmt.Sprint(m.usedLocks, m.epoch)
	for _, k := range ks {
		s += fmt.Sprint(k, m.locks[k])
	}
	return []byte(s)
}
func (m *balModel) get(a string) *big.Int {
	if v, ok := m.bal[a]; ok {
		return v
	}
	return new(big.Int)
}

type balOp struct {
	kind   string // mint burn transfer transferX lock tick tickBy balEpoch probeXfer
	from   string // symbolic account
	to     string
	amt    *big.Int
	until  int64  // relative to the current epoch, for lock
	signer string // C, from, to, S, from+C, nobody
	de     int64  // epoch delta for tick
	via    string // "Kc": the call is forwarded by the probe contract
	data   string // transfer: the NEP-17 data argument (nil when empty): "b" a byte string, "i" an integer, "a" an array
}

type BalDriver struct {
	Mode  string // C01, C02, C09
	ops   []balOp
	addrs map[string][]byte
	w     *World
}

func bigS(s string) *big.Int { b, _ := new(big.Int).SetString(s, 10); return b }

const huge = "1180591620717411303424" // 2^70

func NewBalDriver(mode string) *BalDriver {
	d := &BalDriver{Mode: mode}
	amts := func(ss ...string) (r []*big.Int) {
		for _, s := range ss {
			r = append(r, bigS(s))
		}
		return
	}
	add := func(o ...balOp) { d.ops = append(d.ops, o...) }
	switch mode {
	case "C01":
		for _, to := range []string{"A", "B"} {
			for _, a := range amts("-5", "0", "5", huge) {
				add(balOp{kind: "mint", to: to, amt: a, signer: "C"})
			}
		}
		add(balOp{kind: "mint", to: "Kc", amt: bigS("5"), signer: "C"})
		add(balOp{kind: "mint", to: "A", amt: bigS("5"), signer: "S"})
		for _, from := range []string{"A", "B", "L1"} {
			for _, a := range amts("-5", "0", "3", "5", "8") {
				add(balOp{kind: "burn", from: from, amt: a, signer: "C"})
			}
		}
		add(balOp{kind: "burn", from: "A", amt: bigS("3"), signer: "S"})
		for _, from := range []string{"A", "B"} {
			for _, to := range []string{"A", "B"} {
				for _, a := range amts("-5", "0", "3", "5", "8", huge) {
					add(balOp{kind: "transfer", from: from, to: to, amt: a, signer: "from"})
				}
			}
		}
		add(
			balOp{kind: "transfer", from: "A", to: "B", amt: bigS("3"), signer: "to"},
			balOp{kind: "transfer", from: "A", to: "B", amt: bigS("3"), signer: "S"},
			balOp{kind: "transfer", from: "A", to: "B", amt: bigS("-5"), signer: "to"},
			balOp{kind: "transfer", from: "A", to: "bad19", amt: bigS("3"), signer: "from"},
			balOp{kind: "transfer", from: "A", to: "bad21", amt: bigS("3"), signer: "from"},
			balOp{kind: "transfer", from: "A", to: "empty", amt: bigS("3"), signer: "from"},
			balOp{kind: "transfer", from: "bad21", to: "B", amt: bigS("3"), signer: "S"},
			balOp{kind: "transfer", from: "empty", to: "B", amt: bigS("3"), signer: "S"},
			balOp{kind: "transfer", from: "bad19", to: "B", amt: bigS("0"), signer: "S"},
			balOp{kind: "probeXfer", from: "Kc", to: "B", amt: bigS("3"), signer: "S"},
			balOp{kind: "probeXfer", from: "Kc", to: "B", amt: bigS("-5"), signer: "S"},
			balOp{kind: "probeXfer", from: "A", to: "Kc", amt: bigS("3"), signer: "S"},
			balOp{kind: "mint", to: "Bal", amt: bigS("5"), signer: "C"},
			balOp{kind: "transfer", from: "Bal", to: "A", amt: bigS("3"), signer: "S"},
			balOp{kind: "transferX", from: "A", to: "B", amt: bigS("3"), signer: "C"},
			balOp{kind: "transferX", from: "A", to: "B", amt: bigS("-5"), signer: "C"},
			balOp{kind: "transferX", from: "A", to: "B", amt: bigS("8"), signer: "C"},
			balOp{kind: "transferX", from: "A", to: "B", amt: bigS("3"), signer: "from"},
		)
		for _, a := range amts("-5", "0", "3", "9") {
			for _, u := range []int64{1, 2} {
				add(balOp{kind: "lock", from: "A", to: "Lnext", amt: a, until: u, signer: "C"})
			}
		}
		add(balOp{kind: "lock", from: "A", to: "Lnext", amt: bigS("3"), until: 1, signer: "from"})
		// the public transfer reaches any 20-byte address: the one the next lock will use, and a live lock account
		add(balOp{kind: "transfer", from: "A", to: "Lnext", amt: bigS("3"), signer: "from"},
			balOp{kind: "transfer", from: "A", to: "L1", amt: bigS("3"), signer: "from"},
			balOp{kind: "transfer", from: "L1", to: "A", amt: bigS("3"), signer: "to"},
			balOp{kind: "transferX", from: "A", to: "A", amt: bigS("5"), signer: "C"},
			balOp{kind: "transferX", from: "A", to: "B", amt: bigS("0"), signer: "C"})
		// receivers that are well-formed but special: the all-zero hash, a contract that refuses payments when asked
		add(balOp{kind: "transfer", from: "A", to: "Z", amt: bigS("3"), signer: "from"}, balOp{kind: "transferX", from: "A", to: "Z", amt: bigS("3"), signer: "C"},
			balOp{kind: "mint", to: "Z", amt: bigS("5"), signer: "C"}, balOp{kind: "transfer", from: "Z", to: "A", amt: bigS("3"), signer: "to"},
			balOp{kind: "transfer", from: "A", to: "Kr", amt: bigS("3"), signer: "from"}, balOp{kind: "transfer", from: "A", to: "Kr", amt: bigS("5"), signer: "from"},
			balOp{kind: "transferX", from: "A", to: "Kr", amt: bigS("3"), signer: "C"})
		// the public transfer with something in its data argument
		add(balOp{kind: "transfer", from: "A", to: "B", amt: bigS("3"), signer: "from", data: "b"},
			balOp{kind: "transfer", from: "A", to: "B", amt: bigS("3"), signer: "S", data: "b"},
			balOp{kind: "transfer", from: "A", to: "B", amt: bigS("8"), signer: "from", data: "i"})
		add(balOp{kind: "tick", signer: "C", de: 1}, balOp{kind: "tick", signer: "S", de: 1},
			balOp{kind: "balEpoch", signer: "S"}, balOp{kind: "balEpoch", signer: "C"},
			// a direct, Alphabet-signed call that runs ahead of Netmap's counter
			balOp{kind: "balEpochAhead", signer: "C"})
	case "C01e":
		// accounts whose record is deleted when they are emptied and created again later - by a mint, a transfer, or
		// the release of a lock -, two such owners served by one tick; a small alphabet, so that the search goes deep
		for _, to := range []string{"A", "B"} {
			add(balOp{kind: "mint", to: to, amt: bigS("5"), signer: "C"},
				balOp{kind: "lock", from: to, to: "Lnext", amt: bigS("5"), until: 1, signer: "C"},
				balOp{kind: "burn", from: to, amt: bigS("5"), signer: "C"})
		}
		add(balOp{kind: "mint", to: "A", amt: bigS("3"), signer: "C"},
			balOp{kind: "lock", from: "A", to: "Lnext", amt: bigS("3"), until: 2, signer: "C"},
			balOp{kind: "transfer", from: "A", to: "B", amt: bigS("5"), signer: "from"},
			balOp{kind: "transfer", from: "B", to: "A", amt: bigS("5"), signer: "from"},
			balOp{kind: "transfer", from: "B", to: "A", amt: bigS("0"), signer: "from"}, // may leave a record that holds nothing
			balOp{kind: "transferX", from: "A", to: "B", amt: bigS("5"), signer: "C"},
			balOp{kind: "burn", from: "L1", amt: bigS("5"), signer: "C"},
			balOp{kind: "tick", signer: "C", de: 1},
			balOp{kind: "balEpochAhead", signer: "C"})
	case "C02":
		for _, to := range []string{"A", "B"} {
			add(balOp{kind: "mint", to: to, amt: bigS("5"), signer: "C"})
		}
		add(balOp{kind: "mint", to: "Kc", amt: bigS("5"), signer: "C"})
		// contract-owned accounts, debited from outside: the token contract's own hash and the probe's
		add(balOp{kind: "mint", to: "Bal", amt: bigS("5"), signer: "C"},
			balOp{kind: "transfer", from: "Bal", to: "A", amt: bigS("3"), signer: "S"}, balOp{kind: "transfer", from: "Bal", to: "A", amt: bigS("3"), signer: "nobody"},
			balOp{kind: "transfer", from: "Bal", to: "A", amt: bigS("3"), signer: "to"}, balOp{kind: "transfer", from: "Kc", to: "B", amt: bigS("3"), signer: "S"},
			balOp{kind: "probeXfer", from: "Bal", to: "Kc", amt: bigS("3"), signer: "S"})
		pairs := [][2]string{{"A", "B"}, {"B", "A"}, {"A", "A"}, {"A", "E"}, {"E", "A"}}
		for _, p := range pairs {
			for _, a := range amts("-5", "0", "3", "5", "8") {
				for _, sg := range []string{"from", "to", "S", "C", "from+C", "nobody"} {
					if p[0] == p[1] && sg == "to" {
						continue
					}
					add(balOp{kind: "transfer", from: p[0], to: p[1], amt: a, signer: sg})
				}
			}
		}
		for _, a := range amts("-5", "3") {
			add(balOp{kind: "transfer", from: "bad19", to: "A", amt: a, signer: "S"},
				balOp{kind: "transfer", from: "bad21", to: "A", amt: a, signer: "S"},
				balOp{kind: "transfer", from: "empty", to: "A", amt: a, signer: "S"},
				balOp{kind: "transfer", from: "A", to: "bad19", amt: a, signer: "from"},
				balOp{kind: "transfer", from: "A", to: "empty", amt: a, signer: "from"},
				balOp{kind: "probeXfer", from: "Kc", to: "B", amt: a, signer: "S"},
				balOp{kind: "probeXfer", from: "A", to: "Kc", amt: a, signer: "S"},
				balOp{kind: "probeXfer", from: "A", to: "B", amt: a, signer: "S"},
				balOp{kind: "probeXfer", from: "B", to: "Kc", amt: a, signer: "to"},
			)
		}
		add(
			balOp{kind: "transferX", from: "A", to: "B", amt: bigS("3"), signer: "C"},
			balOp{kind: "transferX", from: "A", to: "B", amt: bigS("-5"), signer: "C"},
			balOp{kind: "transferX", from: "A", to: "B", amt: bigS("3"), signer: "from"},
			balOp{kind: "transferX", from: "A", to: "B", amt: bigS("3"), signer: "S"},
			balOp{kind: "burn", from: "A", amt: bigS("3"), signer: "C"},
			balOp{kind: "burn", from: "A", amt: bigS("3"), signer: "from"},
			balOp{kind: "burn", from: "A", amt: bigS("-5"), signer: "C"},
			balOp{kind: "lock", from: "A", to: "Lnext", amt: bigS("3"), until: 1, signer: "C"},
			balOp{kind: "lock", from: "A", to: "Lnext", amt: bigS("3"), until: 1, signer: "from"},
			balOp{kind: "lock", from: "A", to: "Lnext", amt: bigS("-5"), until: 1, signer: "C"},
			balOp{kind: "tick", signer: "C", de: 1}, balOp{kind: "tick", signer: "S", de: 1},
			balOp{kind: "balEpoch", signer: "S"}, balOp{kind: "balEpoch", signer: "A"},
			// the committee-majority account (2 of 3) is not the Alphabet (3 of 3)
			balOp{kind: "transferX", from: "A", to: "B", amt: bigS("3"), signer: "M"},
			balOp{kind: "burn", from: "A", amt: bigS("3"), signer: "M"},
			balOp{kind: "mint", to: "A", amt: bigS("5"), signer: "M"},
			balOp{kind: "lock", from: "A", to: "Lnext", amt: bigS("3"), until: 1, signer: "M"},
			balOp{kind: "tick", signer: "M", de: 1}, balOp{kind: "balEpoch", signer: "M"},
			// one Alphabet member alone is not the Alphabet either
			balOp{kind: "transferX", from: "A", to: "B", amt: bigS("3"), signer: "m0"},
			balOp{kind: "burn", from: "A", amt: bigS("3"), signer: "m0"},
			balOp{kind: "lock", from: "A", to: "Lnext", amt: bigS("3"), until: 1, signer: "m0"},
			balOp{kind: "tick", signer: "m0", de: 1}, balOp{kind: "balEpoch", signer: "m0"},
			// the epoch unlock called directly with an epoch ahead of Netmap's: a live lock (until = epoch+1) is due,
			// so whoever gets the call through debits the lock account
			balOp{kind: "balEpochAhead", signer: "S"}, balOp{kind: "balEpochAhead", signer: "A"}, balOp{kind: "balEpochAhead", signer: "M"},
			balOp{kind: "balEpochAhead", signer: "m0"}, balOp{kind: "balEpochAhead", signer: "C"},
			// the chain's validators (one of the three committee keys here, as a 1-of-1 account) are not the Alphabet either
			balOp{kind: "transferX", from: "A", to: "B", amt: bigS("3"), signer: "V"}, balOp{kind: "burn", from: "A", amt: bigS("3"), signer: "V"},
			balOp{kind: "lock", from: "A", to: "Lnext", amt: bigS("3"), until: 1, signer: "V"}, balOp{kind: "mint", to: "A", amt: bigS("5"), signer: "V"},
			balOp{kind: "balEpochAhead", signer: "V"}, balOp{kind: "tick", signer: "V", de: 1},
			// ... and through a forwarding contract: by a stranger, by the holder, and by the Alphabet itself
			balOp{kind: "balEpochAhead", signer: "S", via: "Kc"}, balOp{kind: "balEpochAhead", signer: "A", via: "Kc"}, balOp{kind: "balEpochAhead", signer: "C", via: "Kc"},
			balOp{kind: "transfer", from: "A", to: "B", amt: bigS("3"), signer: "M"},
			// a lock account is nobody's to spend: not its parent's, not a stranger's
			balOp{kind: "transfer", from: "L1", to: "A", amt: bigS("3"), signer: "to"},
			balOp{kind: "transfer", from: "L1", to: "B", amt: bigS("3"), signer: "S"},
			// ... but it can be paid into like any address, and so can the address the next lock will use
			balOp{kind: "transfer", from: "A", to: "L1", amt: bigS("3"), signer: "from"}, balOp{kind: "transfer", from: "A", to: "L1", amt: bigS("3"), signer: "S"},
			balOp{kind: "transfer", from: "A", to: "L1", amt: bigS("8"), signer: "from"}, balOp{kind: "transfer", from: "B", to: "Lnext", amt: bigS("3"), signer: "from"},
		)
		// receivers that are well-formed but special: the all-zero hash, a contract that refuses payments when asked
		for _, sg := range []string{"from", "S"} {
			add(balOp{kind: "transfer", from: "A", to: "Kr", amt: bigS("3"), signer: sg}, balOp{kind: "transfer", from: "A", to: "Z", amt: bigS("3"), signer: sg},
				balOp{kind: "transfer", from: "A", to: "Kr", amt: bigS("5"), signer: sg, data: "b"})
		}
		// what the data argument of the public transfer holds is the receiver's business: every signer set again with a byte
		// string, an integer and an array in it
		for _, dt := range []string{"b", "i", "a"} {
			for _, sg := range []string{"from", "to", "S", "C", "nobody", "M"} {
				add(balOp{kind: "transfer", from: "A", to: "B", amt: bigS("3"), signer: sg, data: dt})
			}
			add(balOp{kind: "transfer", from: "A", to: "A", amt: bigS("3"), signer: "S", data: dt},
				balOp{kind: "transfer", from: "Bal", to: "A", amt: bigS("3"), signer: "S", data: dt},
				balOp{kind: "transfer", from: "A", to: "B", amt: bigS("8"), signer: "from", data: dt},
				balOp{kind: "transfer", from: "A", to: "B", amt: bigS("-5"), signer: "to", data: dt})
		}
	case "C09":
		add(balOp{kind: "mint", to: "A", amt: bigS("10"), signer: "C"})
		for _, a := range amts("0", "3", "5") {
			for _, u := range []int64{-1, 0, 1, 2, 3} {
				add(balOp{kind: "lock", from: "A", to: "Lnext", amt: a, until: u, signer: "C"})
			}
		}
		add(balOp{kind: "lock", from: "A", to: "Lnext", amt: bigS("3"), until: -100, signer: "C"}) // absolute until = 0 at epoch 100? see Step
		for _, l := range []string{"L1", "L2", "L3"} {
			add(balOp{kind: "burn", from: l, amt: bigS("1"), signer: "C"},
				balOp{kind: "burn", from: l, amt: nil, signer: "C"}) // nil == everything that is left
		}
		add(
			balOp{kind: "transferX", from: "L1", to: "B", amt: bigS("1"), signer: "C"},
			balOp{kind: "transferX", from: "L2", to: "B", amt: bigS("1"), signer: "C"},
			balOp{kind: "transfer", from: "A", to: "B", amt: bigS("2"), signer: "from"},
			balOp{kind: "tick", signer: "C", de: 1}, balOp{kind: "tick", signer: "C", de: 2},
			balOp{kind: "tick", signer: "S", de: 1},
			balOp{kind: "balEpoch", signer: "C"}, balOp{kind: "balEpoch", signer: "S"},
			balOp{kind: "balEpochPast", signer: "C"},
			// funds arriving on a live lock account, a second owner locking, a lock account spent by its parent or a stranger
			balOp{kind: "transfer", from: "A", to: "L1", amt: bigS("1"), signer: "from"},
			balOp{kind: "transfer", from: "A", to: "Lnext", amt: bigS("1"), signer: "from"},
			balOp{kind: "lock", from: "B", to: "Lnext", amt: bigS("1"), until: 1, signer: "C"},
			// owners that lock everything they have keep no account record until the release brings one back: two such
			// owners released by one tick
			balOp{kind: "mint", to: "B", amt: bigS("1"), signer: "C"},
			balOp{kind: "lock", from: "A", to: "Lnext", amt: bigS("10"), until: 1, signer: "C"},
			balOp{kind: "transfer", from: "L1", to: "A", amt: bigS("1"), signer: "to"},
			balOp{kind: "transfer", from: "L1", to: "A", amt: bigS("1"), signer: "S"},
		)
	case "C09many":
		// more locks expiring at one tick than any per-call limit one might think of: 40 locks of one owner made by one
		// transaction, next to an ordinary one with a later term
		add(balOp{kind: "mint", to: "A", amt: bigS("45"), signer: "C"},
			balOp{kind: "lockMany", from: "A", amt: bigS("1"), until: 1, de: 40, signer: "C"},
			balOp{kind: "lock", from: "A", to: "Lnext", amt: bigS("3"), until: 2, signer: "C"},
			balOp{kind: "burn", from: "L1", amt: bigS("1"), signer: "C"},
			// a lock made from a lock account (in this mode the later lock addresses sort before the earlier ones, so
			// the inner lock is served first and its funds pass through the outer one within one tick)
			balOp{kind: "lock", from: "L1", to: "Lnext", amt: bigS("1"), until: 1, signer: "C"},
			balOp{kind: "lock", from: "L1", to: "Lnext", amt: bigS("1"), until: 2, signer: "C"},
			balOp{kind: "tick", signer: "C", de: 1}, balOp{kind: "tick", signer: "C", de: 2}, balOp{kind: "balEpoch", signer: "C"})
	default:
		hpanic("BalDriver: unknown mode %s", mode)
	}
	return d
}

func (d *BalDriver) Build() *World {
	n := 1
	if d.Mode == "C02" {
		n = 3 // the committee-majority account differs from the Alphabet account
	}
	w := NewWorld(n)
	nns := CompileDir(Repo, "nns")
	nm := CompileDir(Repo, "netmap")
	bal := CompileDir(Repo, "balance")
	w.Deploy("nns", nns, []any{[]any{[]any{"neofs", "ops@x.y"}}})
	dn := w.Deploy("netmap", nm, []any{false, util.Uint160{}, util.Uint160{}, []any{}, []any{}})
	w.RegisterNNS("netmap", dn.Hash)
	w.Deploy("balance", bal, []any{false, util.Uint160{}, util.Uint160{}})
	probe := CompileSource("balprobe", balProbeSrc, &compiler.Options{Name: "balprobe", NoEventsCheck: true, NoPermissionsCheck: true, Permissions: WildPermissions()})
	kc := w.Deploy("balprobe", probe, nil)
	kr := w.Deploy("balrefuser", CompileSource("balrefuser", balRefuserSrc, &compiler.Options{Name: "balrefuser", NoEventsCheck: true, NoPermissionsCheck: true, Permissions: WildPermissions()}), nil)
	d.w = w
	mk := func(b byte) []byte { a := make([]byte, 20); a[0] = b; a[19] = b; return a }
	d.addrs = map[string][]byte{
		"A": w.Acct("A").Hash.BytesBE(), "B": w.Acct("B").Hash.BytesBE(), "S": w.Acct("S").Hash.BytesBE(), "E": w.Acct("E").Hash.BytesBE(),
		"Kc": kc.Hash.BytesBE(), "Bal": w.Contracts["balance"].Hash.BytesBE(), "Kr": kr.Hash.BytesBE(), "Z": make([]byte, 20),
		"L1": mk(0xf1), "L2": mk(0xf2), "L3": mk(0xf3),
		"bad19": make([]byte, 19), "bad21": make([]byte, 21), "empty": {}}
	if d.Mode == "C01e" {
		// the first and the third lock address sort before every owner's, the second one after them: a tick meets lock
		// accounts and their parents in both orders
		d.addrs["L1"], d.addrs["L3"] = mk(0x00), mk(0x01)
		d.addrs["L1"][19] = 0x01
	}
	if d.Mode == "C09many" {
		d.addrs["L1"], d.addrs["L3"] = d.addrs["L3"], d.addrs["L1"] // later lock addresses sort first
	}
	w.Freeze()
	return w
}

func (d *BalDriver) Init(w *World) Model {
	return &balModel{bal: map[string]*big.Int{}, locks: map[string]lockRec{}, supply: new(big.Int)}
}
func (d *BalDriver) NumOps() int { return len(d.ops) }

func (d *BalDriver) resolve(m *balModel, sym string) (string, []byte) {
	if sym == "Lnext" {
		sym = fmt.Sprintf("L%d", m.usedLocks+1)
	}
	return sym, d.addrs[sym]
}

func (d *BalDriver) OpName(n *Node, i int) string {
	m := n.M.(*balModel)
	o := d.ops[i]
	f, _ := d.resolve(m, o.from)
	t, _ := d.resolve(m, o.to)
	switch o.kind {
	case "tick":
		return fmt.Sprintf("netmap.newEpoch(%d) by %s", m.epoch+o.de, o.signer)
	case "balEpoch":
		return fmt.Sprintf("balance.newEpoch(%d) by %s", m.epoch, o.signer)
	case "balEpochPast":
		return fmt.Sprintf("balance.newEpoch(%d) by %s", m.epoch-1, o.signer)
	case "balEpochAhead":
		if o.via != "" {
			return fmt.Sprintf("%s calls balance.newEpoch(%d) signed by %s", o.via, m.epoch+2, o.signer)
		}
		return fmt.Sprintf("balance.newEpoch(%d) by %s", m.epoch+2, o.signer)
	case "lockMany":
		return fmt.Sprintf("%d x lock(%s->fresh,%s,until=%d) in one transaction by %s", o.de, f, o.amt, d.untilOf(m, o), o.signer)
	case "lock":
		return fmt.Sprintf("lock(%s->%s,%s,until=%d) by %s", f, t, o.amt, d.untilOf(m, o), o.signer)
	case "burn":
		if o.amt == nil {
			return fmt.Sprintf("burn(%s,all) by %s", f, o.signer)
		}
		return fmt.Sprintf("burn(%s,%s) by %s", f, o.amt, o.signer)
	case "mint":
		return fmt.Sprintf("mint(%s,%s) by %s", t, o.amt, o.signer)
	case "probeXfer":
		return fmt.Sprintf("Kc calls transfer(%s->%s,%s) signed by %s", f, t, o.amt, o.signer)
	}
	if o.data != "" {
		return fmt.Sprintf("%s(%s->%s,%s,data:%s) by %s", o.kind, f, t, o.amt, o.data, o.signer)
	}
	return fmt.Sprintf("%s(%s->%s,%s) by %s", o.kind, f, t, o.amt, o.signer)
}

func (d *BalDriver) untilOf(m *balModel, o balOp) int64 {
	if o.until == -100 {
		return 0
	}
	return m.epoch + o.until
}

func (d *BalDriver) Enabled(n *Node, i int) bool {
	m := n.M.(*balModel)
	o := d.ops[i]
	if o.kind == "lockMany" {
		return !m.bulkDone
	}
	if o.kind == "lock" {
		if m.usedLocks >= 3 {
			return false // quantifier: lock targets are fresh addresses
		}
		if o.from == "L1" {
			if _, live := m.locks[Hx(d.addrs["L1"])]; !live || m.usedLocks < 1 {
				return false // a chained lock needs the outer lock account
			}
		}
		if d.Mode == "C02" {
			// ... and fresh also means unfunded (C01 and C09 keep the funded target: finding lock-target-prefunded)
			if _, t := d.resolve(m, o.to); m.get(Hx(t)).Sign() != 0 {
				return false
			}
		}
		if d.untilOf(m, o) < 0 {
			return false
		}
		if o.until == -100 && m.epoch == 0 {
			return false // same as until = epoch+0
		}
	}
	if o.kind == "balEpochPast" && m.epoch == 0 {
		return false
	}
	return true
}

type balXfer struct {
	from, to []byte
	amt      *big.Int
	details  []byte
}

func (d *BalDriver) Step(x *Exec, n *Node, i int) StepResult {
	w := x.W
	m := n.M.(*balModel)
	o := d.ops[i]
	balH := w.Contracts["balance"].Hash
	nmH := w.Contracts["netmap"].Hash
	_, from := d.resolve(m, o.from)
	_, to := d.resolve(m, o.to)
	var signers []util.Uint160
	addSigner := func(b []byte) {
		if len(b) == 20 {
			signers = append(signers, U160(b))
		}
	}
	alpha := false
	prefunded := false
	switch o.signer {
	case "C":
		signers = append(signers, w.Alpha)
		alpha = true
	case "from":
		addSigner(from)
	case "to":
		addSigner(to)
	case "S":
		addSigner(d.addrs["S"])
	case "A":
		addSigner(d.addrs["A"])
	case "from+C":
		addSigner(from)
		signers = append(signers, w.Alpha)
		alpha = true
	case "M":
		signers = append(signers, w.Comm)
	case "m0":
		signers = append(signers, w.Members[0].Hash)
	case "V":
		signers = append(signers, w.Validator.ScriptHash())
	case "nobody":
	}
	hasWitness := func(a []byte) bool {
		if len(a) != 20 {
			return false
		}
		for _, s := range signers {
			if s == U160(a) {
				return true
			}
		}
		return false
	}
	amt := o.amt
	if o.kind == "burn" && amt == nil {
		amt = new(big.Int).Set(m.get(Hx(from)))
	}
	// ---- reference model ----
	nm := m.Clone().(*balModel)
	var exp []balXfer
	expHalt := true
	var expRet any
	var expLock []any
	extraLocks := 0 // Lock events of a lockMany operation
	var expRelease []string
	move := func(f, t []byte, a *big.Int, det []byte) {
		if len(f) == 20 {
			nb := new(big.Int).Sub(nm.get(Hx(f)), a)
			if nb.Sign() == 0 {
				delete(nm.bal, Hx(f))
				delete(nm.locks, Hx(f))
			} else {
				nm.bal[Hx(f)] = nb
			}
		}
		if len(t) == 20 {
			nm.bal[Hx(t)] = new(big.Int).Add(nm.get(Hx(t)), a)
		}
		exp = append(exp, balXfer{f, t, a, det})
	}
	release := func(e int64) {
		var ks []string
		for k := range m.locks {
			ks = append(ks, k)
		}
		sort.Strings(ks)
		for _, k := range ks {
			l := m.locks[k]
			if e >= l.until { // the statement: released by the first tick with epoch >= until
				expRelease = append(expRelease, k)
				kb, _ := hex.DecodeString(k)
				pb, _ := hex.DecodeString(l.parent)
				eb, _ := stackitem.NewBigInteger(big.NewInt(e)).TryBytes()
				move(kb, pb, new(big.Int).Set(nm.get(k)), append([]byte{0x04}, eb...))
				delete(nm.locks, k)
				delete(nm.bal, k)
			}
		}
	}
	neg := amt != nil && amt.Sign() < 0
	var scr []byte
	switch o.kind {
	case "mint":
		scr = Script(balH, "mint", to, amt, []byte("d"))
		if !alpha {
			expHalt = false
		} else {
			move(nil, to, amt, append([]byte{0x01}, 'd'))
			nm.supply.Add(nm.supply, amt)
		}
	case "burn":
		scr = Script(balH, "burn", from, amt, []byte("d"))
		if !alpha || m.get(Hx(from)).Cmp(amt) < 0 || m.supply.Cmp(amt) < 0 {
			expHalt = false
		} else {
			move(from, nil, amt, append([]byte{0x02}, 'd'))
			nm.supply.Sub(nm.supply, amt)
		}
	case "transfer":
		// the data argument of the public transfer is the receiver's business: it must not change who may spend
		var data any
		switch o.data {
		case "b":
			data = []byte("d")
		case "i":
			data = int64(1)
		case "a":
			data = []any{[]byte("d"), int64(3)}
		}
		scr = Script(balH, "transfer", from, to, amt, data)
		if len(to) != 20 || len(from) != 20 || !hasWitness(from) || m.get(Hx(from)).Cmp(amt) < 0 {
			expRet = "i0"
		} else {
			expRet = "i1"
			move(from, to, amt, nil)
		}
	case "probeXfer":
		scr = Script(w.Contracts["balprobe"].Hash, "xfer", balH, from, to, amt)
		own := Hx(from) == Hx(d.addrs["Kc"])
		if !(own || hasWitness(from)) || m.get(Hx(from)).Cmp(amt) < 0 {
			expRet = "i0"
		} else {
			expRet = "i1"
			move(from, to, amt, nil)
		}
	case "transferX":
		scr = Script(balH, "transferX", from, to, amt, []byte("x"))
		if !alpha || m.get(Hx(from)).Cmp(amt) < 0 {
			expHalt = false
		} else {
			move(from, to, amt, []byte("x"))
		}
	case "lock":
		until := d.untilOf(m, o)
		prefunded = m.get(Hx(to)).Sign() != 0
		scr = Script(balH, "lock", []byte("t"), from, to, amt, until)
		if !alpha || m.get(Hx(from)).Cmp(amt) < 0 {
			expHalt = false
		} else {
			nm.usedLocks++
			move(from, to, amt, append([]byte{0x03}, 't'))
			nm.locks[Hx(to)] = lockRec{until: until, parent: Hx(from)}
			expLock = []any{NXs("t"), NX(from), NX(to), NB(amt), NI(until)}
		}
	case "lockMany":
		until := d.untilOf(m, o)
		total := new(big.Int).Mul(amt, big.NewInt(o.de))
		for k := int64(0); k < o.de; k++ {
			l := make([]byte, 20)
			l[0], l[1], l[19] = 0xb0, byte(k), 0x01
			scr = append(scr, Script(balH, "lock", []byte("t"), from, l, amt, until)...)
			if alpha && m.get(Hx(from)).Cmp(total) >= 0 {
				move(from, l, amt, append([]byte{0x03}, 't'))
				nm.locks[Hx(l)] = lockRec{until: until, parent: Hx(from)}
				extraLocks++
			}
		}
		if extraLocks == 0 {
			expHalt = false
		} else {
			nm.bulkDone = true
		}
	case "tick":
		e := m.epoch + o.de
		scr = Script(nmH, "newEpoch", e)
		if !alpha {
			expHalt = false
		} else {
			nm.epoch = e
			release(e)
		}
	case "balEpoch", "balEpochPast", "balEpochAhead":
		e := m.epoch
		if o.kind == "balEpochPast" {
			e--
		}
		if o.kind == "balEpochAhead" {
			e += 2
		}
		scr = Script(balH, "newEpoch", e)
		if o.via == "Kc" {
			scr = Script(w.Contracts["balprobe"].Hash, "tick", balH, e) // the same call forwarded by a contract anybody can deploy
		}
		if !alpha {
			expHalt = false
		} else {
			release(e)
		}
	}
	// ---- implementation ----
	obs, nn := x.Do(n, Call{Script: scr, Signers: signers, Label: d.OpName(n, i)})
	where := map[string]any{"op": o.kind, "signer": o.signer}
	if amt != nil {
		where["amount_sign"] = amt.Sign()
	}
	if prefunded {
		where["lock_target_prefunded"] = true
	}
	viol := func(class, msg string) StepResult {
		return StepResult{V: Viol(class, msg, where), Outcome: "violation"}
	}
	outcome := "FAULT"
	if obs.Halt {
		outcome = "HALT"
		if o.kind == "transfer" || o.kind == "probeXfer" {
			if Same(obs.Ret0(), "i1") {
				outcome = "HALT:true"
			} else {
				outcome = "HALT:false"
			}
		}
	}
	beforeD, afterD := w.FullDump(n.L), w.FullDump(nn.L)
	diff := DiffDumps(beforeD, afterD)
	changed := len(diff) > 0
	refused := !obs.Halt || outcome == "HALT:false"
	// an Alphabet-only method that the model expects to be refused may also halt without doing anything: the
	// statements only demand that nothing changes (the public transfer reports its refusal as `false`)
	if !expHalt && obs.Halt && !changed && len(obs.Notifs) == 0 && o.kind != "transfer" && o.kind != "probeXfer" {
		refused, outcome, expHalt = true, "HALT:noop", true
	}
	// clause: a failed or refused invocation changes nothing and announces nothing
	if refused && (changed || len(obs.Notifs) > 0) {
		return viol("refused-but-changed", fmt.Sprintf("a failed/false invocation changed state or emitted events: %v %v", diff, obs.Notifs))
	}
	// clause: invariants on raw storage: no negative record, sum == totalSupply, balanceOf == record
	before, err1 := balRecords(w.Dump(n.L, "balance"))
	after, err2 := balRecords(w.Dump(nn.L, "balance"))
	if err1 != nil || err2 != nil {
		return viol("bad-account-record", fmt.Sprint(err1, err2))
	}
	// clause (C02): a balance may decrease only with the holder's witness, by the holder contract's own call, or with the Alphabet's
	authClause := func() *StepResult {
		for a := range after {
			if _, ok := before[a]; !ok {
				before[a] = new(big.Int)
			}
		}
		for a, b := range before {
			ab := after[a]
			if ab == nil {
				ab = new(big.Int)
			}
			if ab.Cmp(b) < 0 {
				ab20, _ := hex.DecodeString(a)
				own := o.kind == "probeXfer" && a == Hx(d.addrs["Kc"])
				// the Alphabet's signature authorises debits through its own methods only (transferX, lock, burn, the
				// epoch unlock), not through the public transfer
				alphaPath := alpha && (o.kind == "transferX" || o.kind == "lock" || o.kind == "lockMany" || o.kind == "burn" || o.kind == "tick" || strings.HasPrefix(o.kind, "balEpoch"))
				if !(alphaPath || hasWitness(ab20) || own) {
					where["account"] = d.symOf(a)
					r := viol("unauthorised-debit", fmt.Sprintf("%s went %s -> %s in a transaction signed by %v", d.symOf(a), b, ab, o.signer))
					return &r
				}
			}
		}
		return nil
	}
	if d.Mode == "C02" {
		if r := authClause(); r != nil {
			return *r
		}
	}
	sum := new(big.Int)
	for a, b := range after {
		if b.Sign() < 0 {
			where["account"] = d.symOf(a)
			return viol("negative-balance", fmt.Sprintf("account %s has balance %s", d.symOf(a), b))
		}
		sum.Add(sum, b)
	}
	ts := x.W.Read(nn.L, nn.H, nn.TS, balH, "totalSupply")
	if !ts.Halt || !Same(ts.Ret0(), NB(sum)) {
		return viol("supply-ne-sum", fmt.Sprintf("totalSupply=%v sum of records=%s", ts.Stack, sum))
	}
	// clause: supply moves only by a successful mint (+amount) / burn (-amount)
	tsb := x.W.Read(n.L, n.H, n.TS, balH, "totalSupply")
	sb, _ := AsInt(tsb.Ret0())
	sa, _ := AsInt(ts.Ret0())
	if sb != nil && sa != nil {
		delta := new(big.Int).Sub(sa, sb)
		want := new(big.Int)
		if obs.Halt && !refused && o.kind == "mint" {
			want.Set(amt)
		} else if obs.Halt && !refused && o.kind == "burn" {
			want.Neg(amt)
		}
		if delta.Cmp(want) != 0 {
			return viol("supply-moved", fmt.Sprintf("totalSupply moved by %s, expected %s", delta, want))
		}
	}
	// clause: every balance change is announced by exactly one Transfer and one TransferX with
	// the true from/to/amount: applying the notification stream to the old balances gives the new ones
	shadow := map[string]*big.Int{}
	for a, b := range before {
		shadow[a] = new(big.Int).Set(b)
	}
	var balNotifs []Notif
	for _, nf := range obs.Notifs {
		if nf.Contract == "balance" {
			balNotifs = append(balNotifs, nf)
		}
	}
	// the statement fixes no order between the two streams: compare them as multisets of (from, to, amount)
	// and replay the Transfer stream
	plain, ext := map[string]int{}, map[string]int{}
	for _, nf := range balNotifs {
		switch {
		case nf.Name == "Lock":
			continue
		case nf.Name == "Transfer" && len(nf.Args) == 3:
			plain[fmt.Sprint(nf.Args)]++
		case nf.Name == "TransferX" && len(nf.Args) == 4:
			ext[fmt.Sprint(nf.Args[:3])]++
			continue
		default:
			return viol("notification-pairing", fmt.Sprintf("unexpected Balance notification %s%v among %v", nf.Name, nf.Args, balNotifs))
		}
		a, _ := AsInt(nf.Args[2])
		if fb, ok := AsBytes(nf.Args[0]); ok && len(fb) == 20 {
			if shadow[Hx(fb)] == nil {
				shadow[Hx(fb)] = new(big.Int)
			}
			shadow[Hx(fb)].Sub(shadow[Hx(fb)], a)
		}
		if tb, ok := AsBytes(nf.Args[1]); ok && len(tb) == 20 {
			if shadow[Hx(tb)] == nil {
				shadow[Hx(tb)] = new(big.Int)
			}
			shadow[Hx(tb)].Add(shadow[Hx(tb)], a)
		}
	}
	if fmt.Sprint(plain) != fmt.Sprint(ext) {
		return viol("notification-pairing", fmt.Sprintf("Transfer/TransferX do not come in equal pairs: %v", balNotifs))
	}
	for a, b := range shadow {
		ab := after[a]
		if ab == nil {
			ab = new(big.Int)
		}
		if ab.Cmp(b) != 0 {
			where["account"] = d.symOf(a)
			return viol("notifications-ne-balances", fmt.Sprintf("replaying notifications gives %s=%s, contract has %s (%v)", d.symOf(a), b, ab, balNotifs))
		}
	}
	for a, b := range after {
		if shadow[a] == nil && b.Sign() != 0 {
			where["account"] = d.symOf(a)
			return viol("notifications-ne-balances", fmt.Sprintf("%s=%s appeared without notification", d.symOf(a), b))
		}
	}
	if r := authClause(); r != nil {
		return *r
	}
	// clause (C09): a tick releases exactly the locks with until <= epoch
	if obs.Halt && expHalt {
		for _, k := range expRelease {
			if _, still := after[k]; still {
				where["until"] = m.locks[k].until
				where["lock"] = d.symOf(k)
				return viol("lock-not-released", fmt.Sprintf("lock account %s (until=%d) still exists after %s", d.symOf(k), m.locks[k].until, d.OpName(n, i)))
			}
		}
		if o.kind == "tick" || o.kind == "balEpoch" || o.kind == "balEpochPast" || o.kind == "balEpochAhead" {
			for k, l := range m.locks {
				if _, still := after[k]; !still && !contains(expRelease, k) {
					where["until"] = l.until
					return viol("lock-released-early", fmt.Sprintf("lock account %s (until=%d) disappeared at %s", d.symOf(k), l.until, d.OpName(n, i)))
				}
			}
		}
	}
	// The statement does not say whether a negative amount is refused or applied arithmetically
	// (the invariants above decide whether the result is acceptable): the model takes either.
	if neg && refused {
		nn.M = m
		return StepResult{Next: nn, Outcome: outcome}
	}
	// clause: lock-step agreement with the reference model
	if obs.Halt != expHalt {
		return viol("outcome", fmt.Sprintf("model expects halt=%v, contract halt=%v fault=%q", expHalt, obs.Halt, obs.Fault))
	}
	if obs.Halt && expRet != nil && !Same(obs.Ret0(), expRet) {
		return viol("transfer-result", fmt.Sprintf("model expects %v, contract returned %v", expRet, obs.Stack))
	}
	if refused {
		nn.M = m
		return StepResult{Next: nn, Outcome: outcome}
	}
	for _, sym := range []string{"A", "B", "S", "E", "Kc", "Kr", "Z", "Bal", "L1", "L2", "L3"} {
		a := d.addrs[sym]
		r := x.W.Read(nn.L, nn.H, nn.TS, balH, "balanceOf", a)
		want := NB(nm.get(Hx(a)))
		if !r.Halt || !Same(r.Ret0(), want) {
			where["account"] = sym
			return viol("balance-ne-model", fmt.Sprintf("balanceOf(%s)=%v model=%v", sym, r.Stack, want))
		}
		rec := after[Hx(a)]
		if rec == nil {
			rec = new(big.Int)
		}
		if rec.Cmp(nm.get(Hx(a))) != 0 {
			where["account"] = sym
			return viol("record-ne-model", fmt.Sprintf("storage record of %s holds %v, model %v", sym, rec, nm.get(Hx(a))))
		}
	}
	for a, b := range after {
		// whether a zero balance keeps a storage record is an implementation detail; only values are compared
		if b.Cmp(nm.get(a)) != 0 {
			where["account"] = d.symOf(a)
			return viol("record-ne-model", fmt.Sprintf("storage record of %s holds %v, model %v", d.symOf(a), b, nm.get(a)))
		}
	}
	if !Same(ts.Ret0(), NB(nm.supply)) {
		return viol("supply-ne-model", fmt.Sprintf("totalSupply=%v model=%s", ts.Stack, nm.supply))
	}
	var want []Notif
	for _, xf := range exp {
		want = append(want, Notif{"balance", "Transfer", []any{NX(xf.from), NX(xf.to), NB(xf.amt)}})
		want = append(want, Notif{"balance", "TransferX", []any{NX(xf.from), NX(xf.to), NB(xf.amt), NX(xf.details)}})
	}
	if expLock != nil {
		want = append(want, Notif{"balance", "Lock", expLock})
	}
	for k := 0; k < extraLocks; k++ {
		want = append(want, Notif{"balance", "Lock", nil})
	}
	// the statements fix from, to and amount of the announcements; the encoding of the details field and the argument
	// list of the Lock event are the contract's own business
	strip := func(l []Notif) []Notif {
		out := make([]Notif, len(l))
		for i, nf := range l {
			out[i] = nf
			if nf.Name == "TransferX" && len(nf.Args) == 4 {
				out[i].Args = nf.Args[:3]
			}
			if nf.Name == "Lock" {
				out[i].Args = nil
			}
		}
		return out
	}
	if !SameNotifSet(strip(balNotifs), strip(want)) {
		return viol("notifications", fmt.Sprintf("got %v want %v", balNotifs, want))
	}
	nn.M = nm
	return StepResult{Next: nn, Outcome: outcome, Changed: changed}
}

func (d *BalDriver) symOf(hexAddr string) string {
	for s, a := range d.addrs {
		if Hx(a) == hexAddr && len(a) == 20 {
			return s
		}
	}
	return hexAddr
}

// balRecords parses the raw 'a' records of the Balance contract.
func balRecords(kvs []KV) (map[string]*big.Int, error) {
	out := map[string]*big.Int{}
	for _, kv := range kvs {
		if len(kv.K) == 21 && kv.K[0] == 'a' {
			it, err := stackitem.Deserialize(kv.V)
			if err != nil {
				return nil, err
			}
			f, ok := it.Value().([]stackitem.Item)
			if !ok || len(f) < 1 {
				return nil, fmt.Errorf("account record %x is not a struct", kv.K)
			}
			b, err := f[0].TryInteger()
			if err != nil {
				return nil, err
			}
			out[Hx(kv.K[1:])] = b
		}
	}
	return out, nil
}

func contains(l []string, s string) bool {
	for _, e := range l {
		if e == s {
			return true
		}
	}
	return false
}
