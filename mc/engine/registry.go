package engine

import (
	"encoding/json"
	"fmt"
	"os"
	"runtime"
	"strings"
	"time"
)

// Check is one registered property check.
type Check struct {
	Run    func(tier string, seed int64) int
	Replay func(rf *ReplayFile) int
}

var Registry = map[string]*Check{}

func Workers() int {
	n := EnvInt("VERIF_WORKERS", runtime.NumCPU())
	if n < 1 {
		n = 1
	}
	return n
}

// bfsCheck registers a BFS-driven property.
func bfsCheck(prop, driver string, mk func() Driver, quickDepth, thoroughDepth int, quickConf, thoroughConf int, extraAssume []string) {
	bfsCheckT(prop, driver, func(string) func() Driver { return mk }, quickDepth, thoroughDepth, quickConf, thoroughConf, extraAssume)
}

// bfsCheckT is bfsCheck with a tier-dependent driver.
func bfsCheckT(prop, driver string, mkT func(tier string) func() Driver, quickDepth, thoroughDepth int, quickConf, thoroughConf int, extraAssume []string) {
	Registry[prop] = &Check{
		Run: func(tier string, seed int64) int {
			mk := mkT(tier)
			o := Options{Property: prop, Tier: tier, Seed: seed, Workers: Workers(), Depth: quickDepth, ConfCap: quickConf, Deadline: 8 * time.Minute}
			if tier == "thorough" {
				o.Depth, o.ConfCap, o.Deadline = thoroughDepth, thoroughConf, 100*time.Minute
			}
			o.Depth = EnvInt("VERIF_DEPTH", o.Depth)
			o.Params = map[string]any{"depth": o.Depth, "tier": tier}
			kf := LoadFindings()
			st := Explore(mk, o, kf)
			Conformance(mk, st, o)
			return Finish(mk, driver, st, o, nil, extraAssume)
		},
		Replay: func(rf *ReplayFile) int {
			tier, _ := rf.Params["tier"].(string)
			mk := mkT(tier)
			v, names := ReplayOps(mk, rf.Ops)
			for i, n := range names {
				fmt.Printf("  %2d. %s\n", i+1, n)
			}
			if v == nil {
				fmt.Printf("replay of %s: the operation list runs without a violation on this tree\n", rf.Property)
				return 0
			}
			fmt.Printf("replay of %s: %s\n", rf.Property, v.String())
			// the same list on the block executor, to show the layered observation is the chain's
			st := &Stats{Violations: []*Violation{v}}
			Conformance(mk, st, Options{Workers: 1, ConfCap: 1})
			fmt.Printf("block executor agrees on the trace (%d validated)\n", st.ConfValidated)
			fmt.Printf("VIOLATION property=%s replay=%s\n", rf.Property, os.Getenv("VERIF_REPLAY_PATH"))
			return 1
		},
	}
}

// part is one sub-exploration of a property that needs several alphabets.
type part struct {
	Driver string
	Mk     func() Driver
	QD, TD int
	QC, TC int
}

// multiBfsCheck runs several explorations for one property and merges their statistics
// into one evidence file.
func multiBfsCheck(regName string, parts []part, extraAssume []string) {
	prop := strings.TrimSuffix(regName, "t")
	Registry[regName] = &Check{
		Run: func(tier string, seed int64) int {
			kf := LoadFindings()
			var total *Stats
			code := 0
			per := map[string]any{}
			var mkAny func() Driver
			var o Options
			var refused []SetupRefused
			for _, p := range parts {
				if tier != "thorough" && p.QD == 0 {
					continue
				}
				o = Options{Property: prop, Tier: tier, Seed: seed, Workers: Workers(), Depth: p.QD, ConfCap: p.QC, Deadline: 8 * time.Minute}
				if tier == "thorough" {
					o.Depth, o.ConfCap, o.Deadline = p.TD, p.TC, 60*time.Minute
				}
				o.Params = map[string]any{"depth": o.Depth, "tier": tier, "part": p.Driver}
				// a part whose world cannot be prepared on this tree does not stop the other parts: one of
				// them may show the violation behind the refusal. Unexplained, it is a harness error at the end.
				var st *Stats
				func() {
					defer func() {
						if r := recover(); r != nil {
							sr, ok := r.(SetupRefused)
							if !ok {
								panic(r)
							}
							refused = append(refused, sr)
							st = nil
						}
					}()
					st = Explore(p.Mk, o, kf)
					Conformance(p.Mk, st, o)
				}()
				if st == nil {
					continue
				}
				per[p.Driver] = map[string]any{"states": st.States, "transitions": st.Transitions, "completed_depth": st.CompletedDepth, "exhaustive": st.Exhaustive, "conformance": st.ConfValidated}
				if len(st.Violations) > 0 {
					// report this part on its own so that the replay file names its driver
					return Finish(p.Mk, p.Driver, st, o, map[string]any{"parts": per}, extraAssume)
				}
				total = mergeStats(total, st)
				mkAny = p.Mk
			}
			if len(refused) > 0 {
				panic(refused[0])
			}
			o.Params = map[string]any{"tier": tier}
			if c := Finish(mkAny, "multi", total, o, map[string]any{"parts": per}, extraAssume); c != 0 {
				code = c
			}
			return code
		},
		Replay: func(rf *ReplayFile) int {
			for _, p := range parts {
				if p.Driver == rf.Driver {
					v, names := ReplayOps(p.Mk, rf.Ops)
					for i, n := range names {
						fmt.Printf("  %2d. %s\n", i+1, n)
					}
					if v == nil {
						fmt.Printf("replay of %s: the operation list runs without a violation on this tree\n", rf.Property)
						return 0
					}
					fmt.Printf("replay of %s: %s\n", rf.Property, v.String())
					fmt.Printf("VIOLATION property=%s replay=%s\n", rf.Property, os.Getenv("VERIF_REPLAY_PATH"))
					return 1
				}
			}
			hpanic("replay: unknown driver %s", rf.Driver)
			return 2
		},
	}
}

// comboCheck registers a property decided by one BFS exploration plus grids.
func comboCheck(prop, driver string, mk func() Driver, qd, td, qc, tc int, grids []func() GridDriver, gq, gt int, extraAssume []string) {
	comboCheckT(prop, driver, func(string) func() Driver { return mk }, qd, td, qc, tc, grids, gq, gt, extraAssume)
}

// comboCheckT is comboCheck with a tier-dependent BFS driver.
func comboCheckT(prop, driver string, mkT func(tier string) func() Driver, qd, td, qc, tc int, grids []func() GridDriver, gq, gt int, extraAssume []string) {
	Registry[prop] = &Check{
		Run: func(tier string, seed int64) int {
			mk := mkT(tier)
			kf := LoadFindings()
			o := Options{Property: prop, Tier: tier, Seed: seed, Workers: Workers(), Depth: qd, ConfCap: qc, Deadline: 8 * time.Minute}
			gconf := gq
			if tier == "thorough" {
				o.Depth, o.ConfCap, o.Deadline = td, tc, 60*time.Minute
				gconf = gt
			}
			o.Depth = EnvInt("VERIF_DEPTH", o.Depth)
			o.Params = map[string]any{"depth": o.Depth, "tier": tier}
			st := Explore(mk, o, kf)
			Conformance(mk, st, o)
			if len(st.Violations) > 0 {
				return Finish(mk, driver, st, o, nil, extraAssume)
			}
			// vacuity guards of the BFS part
			if len(st.Outcomes) < 2 || st.Changed == 0 {
				hpanic("VACUOUS: BFS part of %s: outcomes %v", prop, st.Outcomes)
			}
			gs := newGridStats()
			for _, g := range grids {
				RunGrid(g, prop, tier, seed, gconf, kf, gs)
			}
			return FinishGrid(prop, "grid", tier, seed, gs, st, extraAssume)
		},
		Replay: func(rf *ReplayFile) int {
			if rf.Driver == "grid" {
				return replayGrid(rf, grids)
			}
			t, _ := rf.Params["tier"].(string)
			mk := mkT(t)
			v, names := ReplayOps(mk, rf.Ops)
			for i, n := range names {
				fmt.Printf("  %2d. %s\n", i+1, n)
			}
			if v == nil {
				fmt.Printf("replay of %s: the operation list runs without a violation on this tree\n", rf.Property)
				return 0
			}
			fmt.Printf("replay of %s: %s\n", rf.Property, v.String())
			fmt.Printf("VIOLATION property=%s replay=%s\n", rf.Property, os.Getenv("VERIF_REPLAY_PATH"))
			return 1
		},
	}
}

func mergeStats(a, b *Stats) *Stats {
	if a == nil {
		return b
	}
	a.States += b.States
	a.Transitions += b.Transitions
	a.Changed += b.Changed
	a.NewChanged += b.NewChanged
	for k, v := range b.Outcomes {
		a.Outcomes[k] += v
	}
	for k, v := range b.PerOpOK {
		a.PerOpOK[k] += v
	}
	for k, v := range b.PerOpTried {
		a.PerOpTried[k] += v
	}
	for k, v := range b.Known {
		a.Known[k] += v
		if a.KnownExample[k] == nil {
			a.KnownExample[k] = b.KnownExample[k]
		}
	}
	if b.CompletedDepth < a.CompletedDepth {
		a.CompletedDepth = b.CompletedDepth
	}
	a.Exhaustive = a.Exhaustive && b.Exhaustive
	a.DeadlineHit = a.DeadlineHit || b.DeadlineHit
	a.Pruned += b.Pruned
	a.Elapsed += b.Elapsed
	a.Samples = append(a.Samples, b.Samples...)
	a.ConfValidated += b.ConfValidated
	a.ConfRefusals += b.ConfRefusals
	a.Frontier = append(a.Frontier, b.Frontier...)
	return a
}

func LoadReplay(path string) *ReplayFile {
	b, err := os.ReadFile(path)
	if err != nil {
		hpanic("replay file: %v", err)
	}
	rf := &ReplayFile{}
	if err := json.Unmarshal(b, rf); err != nil {
		hpanic("replay file: %v", err)
	}
	return rf
}

func init() {
	multiBfsCheck("C01", []part{
		{"balance", func() Driver { return NewBalDriver("C01") }, 4, 7, 120, 1000},
		{"balance-emptied-accounts", func() Driver { return NewBalDriver("C01e") }, 6, 9, 40, 300},
	}, nil)
	bfsCheck("C02", "balance-auth", func() Driver { return NewBalDriver("C02") }, 4, 6, 120, 1000, nil)
	bfsCheck("C04", "container-registry", func() Driver { return NewCntDriver() }, 5, 8, 120, 1000, nil)
	multiBfsCheck("C06", []part{
		{"netmap-tick", func() Driver { return NewTickDriver("C06") }, 5, 7, 120, 1000},
		{"netmap-tick-bare", func() Driver { return NewTickDriver("C06bare") }, 4, 6, 40, 300},
		{"netmap-tick-long-history", func() Driver { return NewTickDriver("C06hist") }, 4, 5, 40, 200},
		{"netmap-tick-short-history", func() Driver { return NewTickDriver("C06ring") }, 6, 8, 40, 200},
	}, nil)
	bfsCheck("C07", "netmap-candidates", func() Driver { return NewTickDriver("C07") }, 12, 12, 120, 1000, nil)
	bfsCheck("C10", "nns-lifecycle", func() Driver { return NewNNSDriver("C10") }, 5, 7, 120, 1000, nil)
	multiBfsCheck("C11", []part{
		{"nns-auth", func() Driver { return NewNNSDriver("C11") }, 3, 5, 120, 1000},
		{"nns-auth-even-committee", func() Driver { d := NewNNSDriver("C11even"); d.N = 4; return d }, 3, 4, 30, 100},
		{"nns-auth-midlevel-expiry", func() Driver { return NewNNSDriver("C11m") }, 3, 4, 60, 300},
	}, nil)
	multiBfsCheck("C12", []part{
		{"nns-records", func() Driver { return NewNNSDriver("C12r") }, 3, 5, 80, 600},
		{"nns-midlevel-expiry", func() Driver { return NewNNSDriver("C12m") }, 4, 6, 40, 300},
		{"nns-cname", func() Driver { return NewNNSDriver("C12c") }, 5, 16, 80, 600},
	}, nil)
	comboCheck("C14", "container-roster", func() Driver { return NewRosterDriver() }, 4, 6, 40, 200,
		[]func() GridDriver{func() GridDriver { return NewSigGrid() }}, 40, 200, nil)
	gridCheck("C18", []func() GridDriver{func() GridDriver { return NewValGrid() }}, 100, 500, nil)
	{
		var parts []part
		for n := 1; n <= 7; n++ {
			n := n
			th := n*2/3 + 1
			full := n <= 4
			qd, td := th+2, th+3
			if n > 4 {
				qd = 0 // thorough only
				td = th + 2
			}
			if n >= 3 && n <= 4 {
				qd = th + 1 // the full menu (8 decision kinds x members) is wide: one step past the threshold in the quick tier
			}
			if n == 4 {
				td = th + 2 // (18 million states at th+3 before the menu grew by two kinds)
			}
			parts = append(parts, part{fmt.Sprintf("neofs-votes-n%d", n), func() Driver { return NewVoteDriver(n, n >= 3, full) }, qd, td, 30, 150})
		}
		// two ballots and several waits: only setConfig votes for two ids and the clock, deeper
		parts = append(parts, part{"neofs-votes-n2-two-ballots-timing", func() Driver { return NewVoteTimingDriver(2) }, 6, 8, 30, 150},
			part{"neofs-votes-n3-two-ballots-timing", func() Driver { return NewVoteTimingDriver(3) }, 6, 8, 30, 150},
			part{"neofs-votes-n4-two-ballots-timing", func() Driver { return NewVoteTimingDriver(4) }, 0, 7, 30, 150},
			part{"neofs-votes-n2-callers", func() Driver { return NewVoteCallersDriver(2) }, 5, 7, 30, 150},
			part{"neofs-votes-n3-callers", func() Driver { return NewVoteCallersDriver(3) }, 5, 6, 30, 150})
		// without the symmetry reduction (every voter order), thorough tier only
		parts = append(parts, part{"neofs-votes-n3-all-orders", func() Driver { return NewVoteDriver(3, false, true) }, 0, 5, 30, 150})
		multiBfsCheck("C17", parts, nil)
	}
	gridCheck("C05", []func() GridDriver{
		func() GridDriver { return NewFeeGrid(1) }, func() GridDriver { return NewFeeGrid(4) }, func() GridDriver { return NewFeeGrid(7) },
		func() GridDriver { return NewFeeGridIR(1, 2) }, func() GridDriver { return NewFeeGridIR(4, 3) },
	}, 25, 120, nil)
	{
		// C19: the ledger explorations (Notary on/off x Alphabet sizes) + the emit/acceptance grid
		mkG := func(notary bool, n int) func() Driver { return func() Driver { return NewGasDriver(notary, n) } }
		Registry["C19"] = &Check{
			Run: func(tier string, seed int64) int {
				kf := LoadFindings()
				var total *Stats
				per := map[string]any{}
				for _, p := range []struct {
					name   string
					notary bool
					n      int
				}{{"neofs-gas-notary-n1", true, 1}, {"neofs-gas-notary-n3", true, 3}, {"neofs-gas-notary-n4", true, 4}, {"neofs-gas-legacy-n1", false, 1}, {"neofs-gas-legacy-n2", false, 2}, {"neofs-gas-legacy-n3", false, 3}, {"neofs-gas-legacy-n4", false, 4},
					{"neofs-gas-legacy-n4-votes", false, 4}} {
					o := Options{Property: "C19", Tier: tier, Seed: seed, Workers: Workers(), Depth: 4, ConfCap: 40, Deadline: 8 * time.Minute}
					if tier == "thorough" {
						o.Depth, o.ConfCap, o.Deadline = 6, 200, 60*time.Minute
					}
					mk := mkG(p.notary, p.n)
					if strings.HasSuffix(p.name, "-votes") {
						n := p.n
						mk = func() Driver { return NewGasVotesDriver(n) }
						o.Depth += 3 // seven operations only
					}
					o.Depth = EnvInt("VERIF_DEPTH", o.Depth)
					o.Params = map[string]any{"depth": o.Depth, "tier": tier, "part": p.name}
					st := Explore(mk, o, kf)
					Conformance(mk, st, o)
					per[p.name] = map[string]any{"states": st.States, "transitions": st.Transitions, "completed_depth": st.CompletedDepth, "conformance": st.ConfValidated}
					if len(st.Violations) > 0 {
						return Finish(mk, p.name, st, o, map[string]any{"parts": per}, nil)
					}
					total = mergeStats(total, st)
				}
				gs := newGridStats()
				conf := 40
				if tier == "thorough" {
					conf = 200
				}
				RunGrid(func() GridDriver { return NewEmitGrid() }, "C19", tier, seed, conf, kf, gs)
				gs.Parts["ledger-explorations"] = per
				return FinishGrid("C19", "grid", tier, seed, gs, total, nil)
			},
			Replay: func(rf *ReplayFile) int {
				if rf.Driver == "grid" {
					return replayGrid(rf, []func() GridDriver{func() GridDriver { return NewEmitGrid() }})
				}
				var mk func() Driver
				switch rf.Driver {
				case "neofs-gas-notary-n1":
					mk = mkG(true, 1)
				case "neofs-gas-notary-n3":
					mk = mkG(true, 3)
				case "neofs-gas-notary-n4":
					mk = mkG(true, 4)
				case "neofs-gas-legacy-n1":
					mk = mkG(false, 1)
				case "neofs-gas-legacy-n2":
					mk = mkG(false, 2)
				case "neofs-gas-legacy-n4-votes":
					mk = func() Driver { return NewGasVotesDriver(4) }
				default:
					mk = mkG(false, 4)
				}
				v, names := ReplayOps(mk, rf.Ops)
				for i, n := range names {
					fmt.Printf("  %2d. %s\n", i+1, n)
				}
				if v == nil {
					fmt.Printf("replay of %s: the operation list runs without a violation on this tree\n", rf.Property)
					return 0
				}
				fmt.Printf("replay of %s: %s\n", rf.Property, v.String())
				fmt.Printf("VIOLATION property=%s replay=%s\n", rf.Property, os.Getenv("VERIF_REPLAY_PATH"))
				return 1
			},
		}
	}
	{
		mk := func(tier string) []part {
			return []part{
				{"store-reputation", func() Driver { return NewRepDriver(tier) }, 3, 4, 30, 150},
				{"store-audit", func() Driver { return NewAudDriver(tier) }, 3, 4, 30, 150},
				{"store-estimations", func() Driver { return NewEstDriver(tier) }, 4, 6, 30, 150},
				{"store-estimations-epoch-126", func() Driver { return NewEstDriverAt(tier, 126) }, 4, 5, 30, 150},
				{"store-estimations-epoch-254", func() Driver { return NewEstDriverAt(tier, 254) }, 4, 5, 30, 150},
				{"store-neofsid", func() Driver { return NewIDDriver() }, 4, 6, 30, 150},
				{"store-config", func() Driver { return NewCfgDriver() }, 3, 4, 30, 150},
			}
		}
		multiBfsCheck("C20", mk("quick"), nil)
		q, t := Registry["C20"], mk("thorough")
		multiBfsCheck("C20t", t, nil)
		th := Registry["C20t"]
		delete(Registry, "C20t")
		Registry["C20"] = &Check{
			Run: func(tier string, seed int64) int {
				if tier == "thorough" {
					return th.Run(tier, seed)
				}
				return q.Run(tier, seed)
			},
			Replay: func(rf *ReplayFile) int {
				if t, _ := rf.Params["tier"].(string); t == "thorough" {
					return th.Replay(rf)
				}
				return q.Replay(rf)
			},
		}
	}
	gridCheck("C03", []func() GridDriver{
		func() GridDriver { return NewAuthGrid(1) }, func() GridDriver { return NewAuthGrid(2) }, func() GridDriver { return NewAuthGrid(3) },
		func() GridDriver { return NewAuthGrid(4) }, func() GridDriver { return NewAuthGrid(5) }, func() GridDriver { return NewAuthGrid(6) },
		func() GridDriver { return NewAuthGrid(7) },
		func() GridDriver { return NewAuthArgGrid(1) }, func() GridDriver { return NewAuthArgGrid(3) }, func() GridDriver { return NewAuthArgGrid(4) },
	}, 25, 120, nil)
	{
		inner := Registry["C03"]
		Registry["C03"] = &Check{
			Run: func(tier string, seed int64) (code int) {
				defer func() {
					if r := recover(); r != nil {
						sr, ok := r.(SetupRefused)
						if !ok {
							panic(r)
						}
						// preparing the base state only ever calls methods with exactly their documented
						// witnesses: a refusal there is the property's "... succeeds" clause failing
						v := Viol("required-witness-refused", sr.Error(), map[string]any{"n": sr.N, "contract": sr.Contract, "method": sr.Method, "signers": fmt.Sprint(sr.Signers), "during": "base-state preparation"})
						WriteEvidence(&Evidence{PropertyID: "C03", Tier: tier, Seed: seed, Level: "model_checking", Violations: 1, Assumptions: BaseAssumptions,
							Coverage: map[string]any{"evaluations": 1, "distinct_nontrivial": 0, "states": 1, "transitions": 1, "traces_validated_against_impl": 0,
								"samples": []any{sr.Error()}, "rule": "the check stopped while preparing its base state", "exhaustive": false}})
						p := WriteReplay("C03", "setup", map[string]any{"tier": tier}, v, sr.Error())
						fmt.Printf("  %s\n", v.String())
						fmt.Printf("VIOLATION property=C03 replay=%s\n", p)
						code = 1
					}
				}()
				return inner.Run(tier, seed)
			},
			Replay: func(rf *ReplayFile) (code int) {
				if rf.Driver != "setup" {
					return inner.Replay(rf)
				}
				defer func() {
					if r := recover(); r != nil {
						if sr, ok := r.(SetupRefused); ok {
							fmt.Printf("replay of C03: %s\nVIOLATION property=C03 replay=(replayed)\n", sr.Error())
							code = 1
							return
						}
						panic(r)
					}
				}()
				for _, n := range []int{1, 2, 3, 4, 5, 6, 7} {
					w := NewAuthGrid(n).Build()
					w.Close()
				}
				fmt.Println("replay of C03: the base state is prepared without a refusal on this tree")
				return 0
			},
		}
	}
	Registry["C15"] = &Check{
		Run: runC15,
		Replay: func(rf *ReplayFile) int {
			fmt.Println("replay of C15 re-runs the artefact comparison on this tree:")
			return runC15("quick", 0)
		},
	}
	c16grids := []func() GridDriver{}
	for _, pre := range findDumps() {
		pre := pre
		c16grids = append(c16grids, func() GridDriver { return NewDumpGrid(pre) })
	}
	gridCheck("C16", append(c16grids, []func() GridDriver{
		func() GridDriver { return NewUpGrid() },
		func() GridDriver { return NewGateGrid(1) }, func() GridDriver { return NewGateGrid(2) }, func() GridDriver { return NewGateGrid(3) }, func() GridDriver { return NewGateGrid(4) },
		func() GridDriver { return NewGateGrid(6) }, func() GridDriver { return NewGateGrid(7) },
	}...), 30, 150, nil)
	{
		inner := Registry["C16"]
		Registry["C16"] = &Check{
			Run:    func(tier string, seed int64) int { defer CleanupScratch(); return inner.Run(tier, seed) },
			Replay: func(rf *ReplayFile) int { defer CleanupScratch(); return inner.Replay(rf) },
		}
	}
	comboCheckT("C08", "netmap-history", func(tier string) func() Driver {
		if tier == "thorough" {
			return func() Driver {
				return NewSnapDriver([]int{0, 1, 2, 3, 4, 5, 6, 7, 8, 9, 10, 11, 12, 255, 256, 257, 266}, 30, 2)
			}
		}
		return func() Driver { return NewSnapDriver([]int{0, 1, 2, 3, 5, 9, 10, 11, 12, 255, 256, 266}, 14, 2) }
	}, 16, 32, 60, 300, []func() GridDriver{func() GridDriver { return NewLongHistoryGrid() }}, 2, 6, nil)
	multiBfsCheck("C09", []part{
		{"balance-locks", func() Driver { return NewBalDriver("C09") }, 5, 8, 120, 1000},
		{"balance-locks-many", func() Driver { return NewBalDriver("C09many") }, 5, 7, 40, 200},
	}, nil)
}
