package engine

import (
	"encoding/json"
	"fmt"
	"os"
	"runtime"
	"time"
)

// Check is one registered property check.
type Check struct {
	Run    func(tier string, seed int64) int
	Replay func(rf *ReplayFile) int
}

var Registry = map[string]*Check{}

func Workers() int {
	n := EnvInt("VERIF_WORKERS", runtime.NumCPU())
	if n < 1 {
		n = 1
	}
	return n
}

// bfsCheck registers a BFS-driven property.
func bfsCheck(prop, driver string, mk func() Driver, quickDepth, thoroughDepth int, quickConf, thoroughConf int, extraAssume []string) {
	bfsCheckT(prop, driver, func(string) func() Driver { return mk }, quickDepth, thoroughDepth, quickConf, thoroughConf, extraAssume)
}

// bfsCheckT is bfsCheck with a tier-dependent driver.
func bfsCheckT(prop, driver string, mkT func(tier string) func() Driver, quickDepth, thoroughDepth int, quickConf, thoroughConf int, extraAssume []string) {
	Registry[prop] = &Check{
		Run: func(tier string, seed int64) int {
			mk := mkT(tier)
			o := Options{Property: prop, Tier: tier, Seed: seed, Workers: Workers(), Depth: quickDepth, ConfCap: quickConf, Deadline: 8 * time.Minute}
			if tier == "thorough" {
				o.Depth, o.ConfCap, o.Deadline = thoroughDepth, thoroughConf, 100*time.Minute
			}
			o.Depth = EnvInt("VERIF_DEPTH", o.Depth)
			o.Params = map[string]any{"depth": o.Depth, "tier": tier}
			kf := LoadFindings()
			st := Explore(mk, o, kf)
			Conformance(mk, st, o)
			return Finish(mk, driver, st, o, nil, extraAssume)
		},
		Replay: func(rf *ReplayFile) int {
			tier, _ := rf.Params["tier"].(string)
			mk := mkT(tier)
			v, names := ReplayOps(mk, rf.Ops)
			for i, n := range names {
				fmt.Printf("  %2d. %s\n", i+1, n)
			}
			if v == nil {
				fmt.Printf("replay of %s: the operation list runs without a violation on this tree\n", rf.Property)
				return 0
			}
			fmt.Printf("replay of %s: %s\n", rf.Property, v.String())
			// the same list on the block executor, to show the layered observation is the chain's
			st := &Stats{Violations: []*Violation{v}}
			Conformance(mk, st, Options{Workers: 1, ConfCap: 1})
			fmt.Printf("block executor agrees on the trace (%d validated)\n", st.ConfValidated)
			fmt.Printf("VIOLATION property=%s replay=%s\n", rf.Property, os.Getenv("VERIF_REPLAY_PATH"))
			return 1
		},
	}
}

func LoadReplay(path string) *ReplayFile {
	b, err := os.ReadFile(path)
	if err != nil {
		hpanic("replay file: %v", err)
	}
	rf := &ReplayFile{}
	if err := json.Unmarshal(b, rf); err != nil {
		hpanic("replay file: %v", err)
	}
	return rf
}

func init() {
	bfsCheck("C01", "balance", func() Driver { return NewBalDriver("C01") }, 4, 6, 120, 1000, nil)
	bfsCheck("C02", "balance-auth", func() Driver { return NewBalDriver("C02") }, 3, 5, 120, 1000, nil)
	bfsCheck("C04", "container-registry", func() Driver { return NewCntDriver() }, 5, 7, 120, 1000, nil)
	bfsCheck("C06", "netmap-tick", func() Driver { return NewTickDriver("C06") }, 5, 7, 120, 1000, nil)
	bfsCheck("C07", "netmap-candidates", func() Driver { return NewTickDriver("C07") }, 12, 12, 120, 1000, nil)
	bfsCheckT("C08", "netmap-history", func(tier string) func() Driver {
		if tier == "thorough" {
			return func() Driver { return NewSnapDriver([]int{0, 1, 2, 3, 4, 5, 6, 7, 8, 9, 10, 11, 12}, 30, 2) }
		}
		return func() Driver { return NewSnapDriver([]int{0, 1, 2, 3, 5, 9, 10, 11, 12}, 14, 2) }
	}, 16, 32, 60, 300, nil)
	bfsCheck("C09", "balance-locks", func() Driver { return NewBalDriver("C09") }, 5, 8, 120, 1000, nil)
}
