package engine

import (
	"bytes"
	"crypto/elliptic"
	"crypto/sha256"
	"fmt"
	"math/big"
	"strings"

	"github.com/nspcc-dev/neo-go/pkg/crypto/keys"
	"github.com/nspcc-dev/neo-go/pkg/neotest"
	"github.com/nspcc-dev/neo-go/pkg/util"
	"github.com/nspcc-dev/neo-go/pkg/vm/stackitem"
)

// ---------- shared world: Container with its dependencies ----------

func buildContainerWorld(n int, fee, aliasFee int64) *World {
	w := NewWorld(n)
	w.Deploy("nns", CompileDir(Repo, "nns"), []any{[]any{[]any{"neofs", "ops@x.y"}}})
	dn := w.Deploy("netmap", CompileDir(Repo, "netmap"), []any{false, util.Uint160{}, util.Uint160{}, []any{}, []any{[]byte("ContainerFee"), fee, []byte("ContainerAliasFee"), aliasFee}})
	w.RegisterNNS("netmap", dn.Hash)
	db := w.Deploy("balance", CompileDir(Repo, "balance"), []any{false, util.Uint160{}, util.Uint160{}})
	w.RegisterNNS("balance", db.Hash)
	di := w.Deploy("neofsid", CompileDir(Repo, "neofsid"), []any{false})
	w.RegisterNNS("neofsid", di.Hash)
	w.Deploy("container", CompileDir(Repo, "container"), []any{int64(0), dn.Hash, db.Hash, di.Hash, w.Contracts["nns"].Hash, "container"})
	return w
}

// ---------- C14a: roster histories (BFS) ----------

type rosterModel struct {
	pending   [3][]int // key numbers per vector, in submission order
	committed [3][]int
	reps      []int
	next      int // next unused key number
	epoch     int // ticks made so far (an epoch tick is none of the roster's business)
}

func (m *rosterModel) Clone() Model {
	c := &rosterModel{reps: append([]int{}, m.reps...), next: m.next, epoch: m.epoch}
	for i := range m.pending {
		c.pending[i] = append([]int{}, m.pending[i]...)
		c.committed[i] = append([]int{}, m.committed[i]...)
	}
	return c
}
func (m *rosterModel) Key() []byte { return []byte{byte(m.next), byte(m.next >> 8)} }

type rosterOp struct {
	kind   string // add commit addBadKey addBadCid
	v      int
	batch  int
	reps   []int
	null   bool // commit: Null instead of an (empty) array of REP numbers
	signer string
}

type RosterDriver struct {
	ops       []rosterOp
	cid       []byte
	other     []byte   // the bystander container
	otherDump []string // its storage entries at the base state
}

func NewRosterDriver() *RosterDriver {
	d := &RosterDriver{}
	h := sha256.Sum256([]byte("roster-container"))
	d.cid = h[:]
	for _, b := range []int{1, 2, 127, 129} {
		d.ops = append(d.ops, rosterOp{kind: "add", v: 0, batch: b, signer: "C"})
	}
	for _, b := range []int{1, 128} {
		d.ops = append(d.ops, rosterOp{kind: "add", v: 1, batch: b, signer: "C"})
	}
	d.ops = append(d.ops,
		rosterOp{kind: "add", v: 2, batch: 1, signer: "C"},
		rosterOp{kind: "add", v: 0, batch: 1, signer: "S"},
		rosterOp{kind: "addBadKey", v: 0, batch: 2, signer: "C"},
		rosterOp{kind: "addBadCid", v: 0, batch: 1, signer: "C"},
		rosterOp{kind: "commit", reps: []int{}, signer: "C"},
		rosterOp{kind: "commit", null: true, signer: "C"},
		rosterOp{kind: "commit", reps: []int{1}, signer: "C"},
		rosterOp{kind: "commit", reps: []int{2, 1}, signer: "C"},
		rosterOp{kind: "commit", reps: []int{1}, signer: "S"},
		rosterOp{kind: "commit", reps: []int{3, 2, 1}, signer: "C"},
		// an epoch tick between batches, or between the last batch and the commit: through Netmap, and Container's own handler directly
		rosterOp{kind: "tick", signer: "C"}, rosterOp{kind: "cnrTick", signer: "C"},
	)
	return d
}

func (d *RosterDriver) Build() *World {
	w := buildContainerWorld(1, 0, 0)
	w.Acct("S")
	// a bystander: another container id (it shares 31 of 32 bytes with the explored one) with a committed roster
	// of two keys and a pending one of one key; nothing the explored container does may touch it
	d.other = append(append([]byte{}, d.cid[:31]...), d.cid[31]^1)
	h := w.Contracts["container"].Hash
	al := []neotest.Signer{w.AlphaS}
	w.Invoke(h, al, "addNextEpochNodes", d.other, int64(0), []any{DetKey(0x61, 0).PublicKey().Bytes(), DetKey(0x61, 1).PublicKey().Bytes()})
	w.Invoke(h, al, "commitContainerListUpdate", d.other, []any{int64(2)})
	w.Invoke(h, al, "addNextEpochNodes", d.other, int64(0), []any{DetKey(0x61, 2).PublicKey().Bytes()})
	d.otherDump = nil
	w.Freeze()
	for _, kv := range w.Dump(w.Root, "container") {
		if bytes.Contains(kv.K, d.other) {
			d.otherDump = append(d.otherDump, Hx(kv.K)+"="+Hx(kv.V))
		}
	}
	return w
}
func (d *RosterDriver) Init(*World) Model { return &rosterModel{} }
func (d *RosterDriver) NumOps() int       { return len(d.ops) }
func (d *RosterDriver) OpName(_ *Node, i int) string {
	o := d.ops[i]
	if o.kind == "tick" {
		return fmt.Sprintf("netmap.newEpoch(next) by %s", o.signer)
	}
	if o.kind == "cnrTick" {
		return fmt.Sprintf("container.newEpoch(next) by %s", o.signer)
	}
	if o.kind == "commit" && o.null {
		return fmt.Sprintf("commitContainerListUpdate(null) by %s", o.signer)
	}
	if o.kind == "commit" {
		return fmt.Sprintf("commitContainerListUpdate(%v) by %s", o.reps, o.signer)
	}
	return fmt.Sprintf("%s(vector %d, %d keys) by %s", o.kind, o.v, o.batch, o.signer)
}
func (d *RosterDriver) Enabled(n *Node, i int) bool {
	m := n.M.(*rosterModel)
	if d.ops[i].kind == "tick" || d.ops[i].kind == "cnrTick" {
		return m.epoch < 2
	}
	return m.next+d.ops[i].batch <= 700
}

func rosterKey(k int) []byte {
	b := make([]byte, 33)
	b[0] = 2
	h := sha256.Sum256([]byte(fmt.Sprintf("roster-key-%d", k)))
	copy(b[1:], h[:])
	return b
}

func (d *RosterDriver) Step(x *Exec, n *Node, i int) StepResult {
	w := x.W
	m := n.M.(*rosterModel)
	nm := m.Clone().(*rosterModel)
	o := d.ops[i]
	h := w.Contracts["container"].Hash
	where := map[string]any{"op": o.kind, "vector": o.v, "batch": o.batch}
	viol := func(class, msg string) StepResult {
		return StepResult{V: Viol(class, msg, where), Outcome: "violation"}
	}
	signers := []util.Uint160{w.Alpha}
	if o.signer == "S" {
		signers = []util.Uint160{w.Acct("S").Hash}
	}
	expHalt := o.signer == "C"
	var scr []byte
	switch o.kind {
	case "add", "addBadKey", "addBadCid":
		var ks []any
		for k := 0; k < o.batch; k++ {
			key := rosterKey(m.next + k)
			if o.kind == "addBadKey" && k == o.batch-1 {
				key = key[:32]
			}
			ks = append(ks, key)
		}
		cid := d.cid
		if o.kind == "addBadCid" {
			cid = cid[:31]
		}
		scr = Script(h, "addNextEpochNodes", cid, int64(o.v), ks)
		if o.kind != "add" || (o.v > 0 && len(m.pending[o.v-1]) == 0) {
			expHalt = false
		}
		if expHalt {
			for k := 0; k < o.batch; k++ {
				nm.pending[o.v] = append(nm.pending[o.v], m.next+k)
			}
			nm.next += o.batch
		}
	case "tick", "cnrTick":
		scr = Script(w.Contracts["netmap"].Hash, "newEpoch", int64(m.epoch+1))
		if o.kind == "cnrTick" {
			scr = Script(h, "newEpoch", int64(m.epoch+1))
		}
		nm.epoch++
	case "commit":
		var rs []any
		for _, r := range o.reps {
			rs = append(rs, int64(r))
		}
		if rs == nil {
			rs = []any{}
		}
		scr = Script(h, "commitContainerListUpdate", d.cid, rs)
		if o.null {
			scr = Script(h, "commitContainerListUpdate", d.cid, nil)
		}
		if expHalt {
			nm.committed = m.pending
			nm.pending = [3][]int{}
			nm.reps = o.reps
		}
	}
	obs, nn := x.Do(n, Call{Script: scr, Signers: signers, Label: d.OpName(n, i)})
	if obs.Halt != expHalt {
		return viol("outcome", fmt.Sprintf("model expects halt=%v, contract halt=%v fault=%q", expHalt, obs.Halt, obs.Fault))
	}
	changed := len(DiffDumps(w.FullDump(n.L), w.FullDump(nn.L))) > 0
	if !obs.Halt {
		if changed {
			return viol("refused-but-changed", "a faulted call changed state")
		}
		nn.M = m
		return StepResult{Next: nn, Outcome: "FAULT"}
	}
	// ---- read back ----
	for v := 0; v < 3; v++ {
		r := w.Read(nn.L, nn.H, nn.TS, h, "nodes", d.cid, int64(v))
		var want []any
		for _, k := range nm.committed[v] {
			want = append(want, NX(rosterKey(k)))
		}
		if !r.Halt || !sameList(r.Ret0(), want) {
			where["read_vector"] = v
			got, _ := r.Ret0().([]any)
			return viol("nodes", fmt.Sprintf("nodes(cid,%d) returns %d keys (fault %q), model %d; first difference at %d", v, len(got), r.Fault, len(want), firstDiff(got, want)))
		}
	}
	// the bystander container keeps its committed and pending rosters
	var od []string
	for _, kv := range w.Dump(nn.L, "container") {
		if bytes.Contains(kv.K, d.other) {
			od = append(od, Hx(kv.K)+"="+Hx(kv.V))
		}
	}
	if fmt.Sprint(od) != fmt.Sprint(d.otherDump) {
		return viol("other-container-touched", fmt.Sprintf("the storage of another container changed: %v -> %v", d.otherDump, od))
	}
	if ro := w.Read(nn.L, nn.H, nn.TS, h, "nodes", d.other, int64(0)); !ro.Halt || len(strList(ro.Ret0())) != 2 {
		return viol("other-container-touched", fmt.Sprintf("nodes(other container, 0) = %v %q", ro.Stack, ro.Fault))
	}
	r := w.Read(nn.L, nn.H, nn.TS, h, "replicasNumbers", d.cid)
	var wr []any
	for _, k := range nm.reps {
		wr = append(wr, NI(int64(k)))
	}
	if !r.Halt || !sameIntList(r.Ret0(), nm.reps) {
		return viol("replicasNumbers", fmt.Sprintf("replicasNumbers=%v model %v", r.Stack, wr))
	}
	// raw scan: the pending roster is exactly the model's, in order
	var pend [3][]string
	for _, kv := range w.Dump(nn.L, "container") {
		if kv.K[0] == 'u' && len(kv.K) == 1+32+1+2 && bytes.Equal(kv.K[1:33], d.cid) {
			v := int(kv.K[33])
			if v < 3 {
				pend[v] = append(pend[v], Hx(kv.V))
			}
		}
	}
	for v := 0; v < 3; v++ {
		var want []string
		for _, k := range nm.pending[v] {
			want = append(want, Hx(rosterKey(k)))
		}
		if strings.Join(pend[v], ",") != strings.Join(want, ",") {
			where["read_vector"] = v
			return viol("pending-roster", fmt.Sprintf("pending roster of vector %d holds %d keys, model %d", v, len(pend[v]), len(want)))
		}
	}
	nn.M = nm
	return StepResult{Next: nn, Outcome: "HALT", Changed: changed}
}

func firstDiff(got []any, want []any) int {
	for i := 0; i < len(got) && i < len(want); i++ {
		if !Same(got[i], want[i]) {
			return i
		}
	}
	if len(got) < len(want) {
		return len(got)
	}
	return len(want)
}

func sameIntList(got any, want []int) bool {
	l, ok := got.([]any)
	if !ok {
		return got == nil && len(want) == 0
	}
	if len(l) != len(want) {
		return false
	}
	for i := range l {
		g, ok := AsInt(l[i])
		if !ok || g.Int64() != int64(want[i]) {
			return false
		}
	}
	return true
}

// ---------- C14b: signature matrices (grid) ----------

type sigCase struct {
	R0, R1  int
	V0, V1  []string // symbols per slot
	Vectors int      // how many vectors the matrix carries (2 normally)
	Dup     bool     // the container whose vector 0 lists member 0 twice: [m0, m0, m1, m2]
	Short   bool     // the container whose vector 0 has one member only (m0) under REP 2 or 3: nothing can satisfy it
	Hist    bool     // the container with a roster history: one vector, REP 1, members {m1, m2} after {m0..m3}; m3 pending
}

type SigGrid struct {
	cid     []byte
	mem     [2][]*keys.PrivateKey
	out     *keys.PrivateKey
	meta    []byte
	other   []byte
	sigs    map[string][]byte
	metaFor map[[2]int]bool
}

func NewSigGrid() *SigGrid {
	d := &SigGrid{}
	h := sha256.Sum256([]byte("sig-container"))
	d.cid = h[:]
	for i := 0; i < 4; i++ {
		d.mem[0] = append(d.mem[0], DetKey(0x51, i))
	}
	for i := 0; i < 3; i++ {
		d.mem[1] = append(d.mem[1], DetKey(0x52, i))
	}
	d.out = DetKey(0x53, 0)
	return d
}

func (d *SigGrid) Name() string { return "placement-signatures" }
func (d *SigGrid) Rule() string {
	return "all signature matrices over the symbol menu (members, the same member twice byte-identically and malleated, a non-member, a member of the other vector; thorough also another message, junk) with <= REP+1 slots for the enumerated vector (the other vector honest), REP 1..4 x 1..2, plus missing-vector rows; non-trivial = at least one slot holds a valid member signature; distinct by matrix"
}

// the contract under every REP pair lives in its own container id, prepared in Build
func (d *SigGrid) cidFor(r0, r1 int) []byte {
	h := sha256.Sum256([]byte(fmt.Sprintf("sig-container-%d-%d", r0, r1)))
	return h[:]
}

func (d *SigGrid) Build() *World {
	w := buildContainerWorld(1, 0, 0)
	h := w.Contracts["container"].Hash
	al := []neotest.Signer{w.AlphaS}
	for r0 := 1; r0 <= 4; r0++ {
		for r1 := 1; r1 <= 2; r1++ {
			cid := d.cidFor(r0, r1)
			for v := 0; v < 2; v++ {
				var ks []any
				for _, k := range d.mem[v] {
					ks = append(ks, k.PublicKey().Bytes())
				}
				w.Invoke(h, al, "addNextEpochNodes", cid, int64(v), ks)
			}
			w.Invoke(h, al, "commitContainerListUpdate", cid, []any{int64(r0), int64(r1)})
		}
	}
	// a container with a roster history: {m0..m3} committed, then {m1,m2} committed, then m3 only pending - members
	// removed by the latest commit and members that are merely pending do not sign
	{
		cid := d.cidHist()
		m := d.mem[0]
		pk := func(i int) []byte { return m[i].PublicKey().Bytes() }
		w.Invoke(h, al, "addNextEpochNodes", cid, int64(0), []any{pk(0), pk(1), pk(2), pk(3)})
		w.Invoke(h, al, "commitContainerListUpdate", cid, []any{int64(1)})
		w.Invoke(h, al, "addNextEpochNodes", cid, int64(0), []any{pk(1), pk(2)})
		w.Invoke(h, al, "commitContainerListUpdate", cid, []any{int64(1)})
		w.Invoke(h, al, "addNextEpochNodes", cid, int64(0), []any{pk(3)})
	}
	// containers whose vector 0 lists member 0 twice (a member counts once, wherever it is listed)
	for r0 := 1; r0 <= 3; r0++ {
		cid := d.cidDup(r0)
		m := d.mem[0]
		w.Invoke(h, al, "addNextEpochNodes", cid, int64(0), []any{m[0].PublicKey().Bytes(), m[0].PublicKey().Bytes(), m[1].PublicKey().Bytes(), m[2].PublicKey().Bytes()})
		var ks []any
		for _, k := range d.mem[1] {
			ks = append(ks, k.PublicKey().Bytes())
		}
		w.Invoke(h, al, "addNextEpochNodes", cid, int64(1), ks)
		w.Invoke(h, al, "commitContainerListUpdate", cid, []any{int64(r0), int64(1)})
	}
	// containers whose vector 0 has fewer members (one) than its REP number (2, 3)
	for r0 := 2; r0 <= 3; r0++ {
		cid := d.cidShort(r0)
		w.Invoke(h, al, "addNextEpochNodes", cid, int64(0), []any{d.mem[0][0].PublicKey().Bytes()})
		var ks []any
		for _, k := range d.mem[1] {
			ks = append(ks, k.PublicKey().Bytes())
		}
		w.Invoke(h, al, "addNextEpochNodes", cid, int64(1), ks)
		w.Invoke(h, al, "commitContainerListUpdate", cid, []any{int64(r0), int64(1)})
	}
	w.Freeze()
	return w
}

func (d *SigGrid) cidHist() []byte {
	h := sha256.Sum256([]byte("sig-container-history"))
	return h[:]
}

func (d *SigGrid) cidShort(r0 int) []byte {
	h := sha256.Sum256([]byte(fmt.Sprintf("sig-container-short-%d", r0)))
	return h[:]
}

func (d *SigGrid) cidDup(r0 int) []byte {
	h := sha256.Sum256([]byte(fmt.Sprintf("sig-container-dup-%d", r0)))
	return h[:]
}

func (d *SigGrid) metaBytes(w *World, cid []byte, size int64) []byte {
	m := stackitem.NewMapWithValue([]stackitem.MapElement{
		{Key: stackitem.Make("cid"), Value: stackitem.Make(cid)},
		{Key: stackitem.Make("oid"), Value: stackitem.Make(make([]byte, 32))},
		{Key: stackitem.Make("size"), Value: stackitem.Make(size)},
		{Key: stackitem.Make("deleted"), Value: stackitem.Make([]any{})},
		{Key: stackitem.Make("locked"), Value: stackitem.Make([]any{})},
		{Key: stackitem.Make("validuntil"), Value: stackitem.Make(int64(w.H) + 1000)},
		{Key: stackitem.Make("network"), Value: stackitem.Make(int64(w.BC.GetConfig().Magic))},
	})
	b, err := stackitem.Serialize(m)
	if err != nil {
		panic(err)
	}
	return b
}

func (d *SigGrid) Cases(tier string) []GridCase {
	syms := []string{"m0", "m1", "m2", "m0same", "m0again", "out", "x0", "m0other"}
	maxR0 := 3
	if tier == "thorough" {
		syms = []string{"m0", "m1", "m2", "m3", "m0same", "m0again", "out", "m0other", "junk", "x0", "x1"}
		maxR0 = 4
	}
	var out []GridCase
	add := func(c sigCase) {
		out = append(out, GridCase{Name: fmt.Sprintf("REP=%d,%d v0=%v v1=%v vectors=%d", c.R0, c.R1, c.V0, c.V1, c.Vectors), Data: c})
	}
	honest := func(r int) []string {
		var l []string
		for i := 0; i < r; i++ {
			l = append(l, fmt.Sprintf("m%d", i))
		}
		return l
	}
	var rec func(pre []string, n int, f func([]string))
	rec = func(pre []string, n int, f func([]string)) {
		if n == 0 {
			f(append([]string{}, pre...))
			return
		}
		for _, s := range syms {
			rec(append(pre, s), n-1, f)
		}
	}
	for r0 := 1; r0 <= maxR0; r0++ {
		// the honest matrix, missing vectors, and every vector-0 matrix with the honest vector 1
		add(sigCase{R0: r0, R1: 1, V0: honest(r0), V1: honest(1), Vectors: 2})
		add(sigCase{R0: r0, R1: 1, V0: honest(r0), V1: nil, Vectors: 1})
		add(sigCase{R0: r0, R1: 1, V0: nil, V1: nil, Vectors: 0})
		for slots := 0; slots <= r0+1; slots++ {
			rec(nil, slots, func(v0 []string) { add(sigCase{R0: r0, R1: 1, V0: v0, V1: honest(1), Vectors: 2}) })
		}
	}
	// the container with a roster history: every single-slot and two-slot matrix over the members
	for _, row := range [][]string{{"m0"}, {"m1"}, {"m2"}, {"m3"}, {"m0", "m3"}, {"m3", "m1"}, {"m0", "m0again"}, {}} {
		out = append(out, GridCase{Name: fmt.Sprintf("roster history ({m0..m3} -> {m1,m2}, m3 pending) REP=1 v0=%v", row), Data: sigCase{R0: 1, R1: 0, V0: row, Vectors: 1, Hist: true}})
	}
	// the roster that lists member 0 twice: every vector-0 matrix over the first symbols
	for r0 := 1; r0 <= 3; r0++ {
		for slots := 0; slots <= r0+1; slots++ {
			rec(nil, slots, func(v0 []string) {
				for _, sy := range v0 {
					if sy == "m3" || sy == "x0" || sy == "x1" || sy == "junk" || sy == "m0other" {
						return
					}
				}
				out = append(out, GridCase{Name: fmt.Sprintf("duplicate-member roster REP=%d,1 v0=%v v1=%v", r0, v0, honest(1)), Data: sigCase{R0: r0, R1: 1, V0: v0, V1: honest(1), Vectors: 2, Dup: true}})
			})
		}
	}
	// the roster whose vector 0 is shorter than its REP number: every vector-0 matrix over the first symbols must be refused
	for r0 := 2; r0 <= 3; r0++ {
		for slots := 0; slots <= r0+1; slots++ {
			rec(nil, slots, func(v0 []string) {
				for _, sy := range v0 {
					if sy == "m3" || sy == "x1" || sy == "junk" || sy == "m0other" {
						return
					}
				}
				out = append(out, GridCase{Name: fmt.Sprintf("one-member vector under REP=%d,1 v0=%v v1=%v", r0, v0, honest(1)), Data: sigCase{R0: r0, R1: 1, V0: v0, V1: honest(1), Vectors: 2, Short: true}})
			})
		}
	}
	// vector-1 matrices (3 members: symbols naming m3 fall outside) with an honest vector 0
	for r1 := 1; r1 <= 2; r1++ {
		for slots := 0; slots <= r1+1; slots++ {
			rec(nil, slots, func(v1 []string) { add(sigCase{R0: 1, R1: r1, V0: honest(1), V1: v1, Vectors: 2}) })
		}
	}
	return out
}

// sig returns the signature bytes a symbol stands for, for vector v and message msg.
func (d *SigGrid) sig(v int, sym string, msg, other []byte) []byte {
	mem := d.mem[v]
	idx := func() *keys.PrivateKey {
		var i int
		fmt.Sscanf(sym, "m%d", &i)
		if i >= len(mem) {
			return d.out // "m3" in the 3-member vector is simply a non-member
		}
		return mem[i]
	}
	switch {
	case sym == "out":
		return d.out.Sign(msg)
	case sym == "junk":
		return make([]byte, 64)
	case sym == "x0" || sym == "x1":
		// a valid signature of the message by a member of the OTHER placement vector
		return d.mem[1-v][int(sym[1]-'0')].Sign(msg)
	case sym == "m0same":
		return mem[0].Sign(msg) // RFC 6979: byte-identical to "m0"
	case sym == "m0again":
		// a second, different, valid signature of the same member: the malleated twin (r, n-s)
		return malleate(mem[0].Sign(msg))
	case sym == "m0other":
		return mem[0].Sign(other)
	}
	return idx().Sign(msg)
}

func malleate(sig []byte) []byte {
	n := elliptic.P256().Params().N
	s := new(big.Int).SetBytes(sig[32:])
	s.Sub(n, s)
	out := append([]byte{}, sig[:32]...)
	sb := s.Bytes()
	out = append(out, make([]byte, 32-len(sb))...)
	return append(out, sb...)
}

func (d *SigGrid) Eval(x *Exec, root *Node, gc GridCase) GridResult {
	w := x.W
	c := gc.Data.(sigCase)
	h := w.Contracts["container"].Hash
	cid := d.cidFor(c.R0, c.R1)
	if c.Dup {
		cid = d.cidDup(c.R0)
	}
	if c.Hist {
		cid = d.cidHist()
	}
	if c.Short {
		cid = d.cidShort(c.R0)
	}
	msg := d.metaBytes(w, cid, 7)
	other := d.metaBytes(w, cid, 8)
	rows := [][]string{c.V0, c.V1}[:c.Vectors]
	var arg []any
	truthOK := true
	anyValid := false
	reps := []int{c.R0, c.R1}
	nv := 2
	if c.Hist {
		nv = 1 // one placement vector
	}
	for v := 0; v < nv; v++ {
		distinct := map[string]bool{} // by key: a member listed twice is one member
		if v < len(rows) {
			var row []any
			for _, sym := range rows[v] {
				sg := d.sig(v, sym, msg, other)
				row = append(row, sg)
				hs := sha256.Sum256(msg)
				for mi, k := range d.mem[v] {
					if c.Hist && mi != 1 && mi != 2 {
						continue // the committed roster of the history container is {m1, m2}
					}
					if c.Short && v == 0 && mi != 0 {
						continue // vector 0 of this container is {m0}
					}
					if k.PublicKey().Verify(sg, hs[:]) {
						_ = mi
						distinct[string(k.PublicKey().Bytes())] = true
						anyValid = true
					}
				}
			}
			if row == nil {
				row = []any{}
			}
			arg = append(arg, row)
		}
		if len(distinct) < reps[v] {
			truthOK = false
		}
	}
	if arg == nil {
		arg = []any{}
	}
	where := map[string]any{"rep0": c.R0, "rep1": c.R1}
	var vs []*Violation
	ver, _ := x.Do(root, Call{Script: Script(h, "verifyPlacementSignatures", cid, msg, arg), Label: "verifyPlacementSignatures " + gc.Name})
	accepted := ver.Halt && Same(ver.Ret0(), "i1")
	if accepted && !truthOK {
		where["repeated_member"] = repeats(rows)
		vs = append(vs, Viol("accepted-without-rep-distinct-members", fmt.Sprintf("verifyPlacementSignatures accepted %s", gc.Name), where))
	}
	honest := c.Vectors == 2 && isHonest(c.V0, c.R0) && isHonest(c.V1, c.R1) && !c.Short
	if honest && !accepted {
		vs = append(vs, Viol("honest-matrix-rejected", fmt.Sprintf("verifyPlacementSignatures rejected the honest matrix %s (halt=%v %v %q)", gc.Name, ver.Halt, ver.Stack, ver.Fault), where))
	}
	// submitObjectPut succeeds only when verification does (the container needs the meta flag:
	// set it on a throw-away fork by a raw put of the flag through the contract's own putMeta path is
	// not possible without a container, so the flag is planted through a layered storage write)
	layer := root.L.GetPrivate()
	layer.PutStorageItem(w.Contracts["container"].ID, append([]byte{'m'}, cid...), []byte{})
	sub := w.Run(layer, root.H, root.TS, Script(h, "submitObjectPut", msg, arg))
	if sub.Halt != accepted {
		where["method"] = "submitObjectPut"
		if sub.Halt && !truthOK {
			vs = append(vs, Viol("accepted-without-rep-distinct-members", fmt.Sprintf("submitObjectPut halted for %s", gc.Name), where))
		} else if sub.Halt && !accepted || honest && !sub.Halt {
			// "and therefore submitObjectPut" is an only-if; that it also succeeds is demanded for the honest matrix alone
			vs = append(vs, Viol("submit-verify-disagree", fmt.Sprintf("submitObjectPut halt=%v (%s) but verifyPlacementSignatures=%v for %s", sub.Halt, sub.Fault, accepted, gc.Name), where))
		}
	}
	if sub.Halt {
		okN := false
		for _, nf := range sub.Notifs {
			if nf.Name == "ObjectPut" && len(nf.Args) == 3 && Same(nf.Args[0], NX(cid)) {
				okN = true
			}
		}
		if !okN || len(sub.Notifs) != 1 {
			vs = append(vs, Viol("objectput-notification", fmt.Sprintf("submitObjectPut emitted %v", sub.Notifs), where))
		}
	}
	out := "rejected"
	if accepted {
		out = "accepted"
	} else if truthOK {
		out = "rejected-although-rep-distinct-members-signed" // soundness is what the statement asks; completeness is only reported
	}
	return GridResult{Outcome: out, Nontrivial: anyValid, V: vs}
}

func isHonest(row []string, r int) bool {
	if len(row) != r {
		return false
	}
	for i, s := range row {
		if s != fmt.Sprintf("m%d", i) {
			return false
		}
	}
	return true
}

// repeats tells whether some row names one member more than once (the shape of the known defect).
func repeats(rows [][]string) bool {
	for _, row := range rows {
		seen := map[string]bool{}
		for _, s := range row {
			base := s
			if strings.HasPrefix(s, "m0") {
				base = "m0"
			}
			if base != "out" && base != "junk" && s != "m0other" && seen[base] {
				return true
			}
			seen[base] = true
		}
	}
	return false
}
