package engine

import (
	"crypto/sha256"
	"fmt"
	"github.com/nspcc-dev/neofs-contract/contracts/container/containerconst"
	"sort"
	"strings"

	"github.com/mr-tron/base58"
	"github.com/nspcc-dev/neo-go/pkg/encoding/address"
	"github.com/nspcc-dev/neo-go/pkg/neotest"
	"github.com/nspcc-dev/neo-go/pkg/util"
)

type cntRec struct {
	live  bool
	dead  bool
	eacl  int // 0 none, 1, 2
	alias string
	meta  bool
}

type nnsDom struct {
	exp  uint64
	recs []string
	// reReg: the domain expired while a live container still carried it as its alias and was then registered
	// again for another container: two live containers share one name
	reReg bool
}

type cntModel struct {
	c      [4]cntRec
	doms   map[string]nnsDom
	now    uint64
	tldExp uint64
	jumps  int
	renews int
	others int
}

func (m *cntModel) Clone() Model {
	c := &cntModel{c: m.c, doms: map[string]nnsDom{}, now: m.now, tldExp: m.tldExp, jumps: m.jumps, renews: m.renews, others: m.others}
	for k, v := range m.doms {
		c.doms[k] = nnsDom{exp: v.exp, recs: append([]string{}, v.recs...), reReg: v.reReg}
	}
	return c
}
func (m *cntModel) Key() []byte {
	ks := make([]string, 0, len(m.doms))
	for k := range m.doms {
		ks = append(ks, k)
	}
	sort.Strings(ks)
	s := fmt.Sprint(m.c, m.jumps, m.tldExp)
	for _, k := range ks {
		s += fmt.Sprint(k, m.doms[k])
	}
	return []byte(s)
}

type cntOp struct {
	kind    string // put putNamed putMeta delete setEACL time
	i       int
	name    string
	table   int
	signer  string
	noTok   bool // no session token: the owner's key is bound in NeoFSID on the way
	metaOff bool // putMeta with the flag set to false
	off     int  // setEACL: length of the version field in front of the container reference
}

type CntDriver struct {
	ops     []cntOp
	blobs   [4][]byte
	cids    [4][]byte
	owners  [2][]byte // 25-byte owner ids
	ownerOf [4]int
	never   []byte
	key33   []byte
	tldTS   uint64
	preTS   uint64 // block time of the registration of pre.container
}

// OwnerID is the 25-byte NeoFS owner id (decoded Neo address) of a script hash.
func OwnerID(h util.Uint160) []byte {
	b, err := base58.Decode(address.Uint160ToString(h))
	if err != nil {
		panic(err)
	}
	return b
}

func NewCntDriver() *CntDriver {
	d := &CntDriver{}
	d.owners[0] = OwnerID(util.Uint160{0x01, 0xaa})
	d.owners[1] = OwnerID(util.Uint160{0x02, 0xbb})
	mk := func(off byte, owner []byte, nonce byte) []byte {
		b := make([]byte, max(80, 2+int(off)+4+25+8))
		b[0] = 0x0a
		b[1] = off
		copy(b[2+int(off)+4:], owner)
		b[len(b)-1] = nonce
		return b
	}
	// the length byte in front of the owner: 0, 4, and 128 (the first value whose top bit is set)
	d.blobs = [4][]byte{mk(0, d.owners[0], 1), mk(0, d.owners[0], 2), mk(128, d.owners[1], 3), mk(4, d.owners[0], 4)}
	d.ownerOf = [4]int{0, 0, 1, 0}
	for i, b := range d.blobs {
		h := sha256.Sum256(b)
		d.cids[i] = h[:]
	}
	d.never = make([]byte, 32)
	d.never[0] = 0x99
	d.key33 = make([]byte, 33)
	d.key33[0] = 2
	d.key33[1] = 0x42
	for i := 0; i < 4; i++ {
		d.ops = append(d.ops, cntOp{kind: "put", i: i, signer: "C"})
		d.ops = append(d.ops, cntOp{kind: "putNamed", i: i, name: "nice", signer: "C"})
		d.ops = append(d.ops, cntOp{kind: "delete", i: i, signer: "C"})
	}
	d.ops = append(d.ops,
		cntOp{kind: "putNamed", i: 0, name: "", signer: "C"},
		cntOp{kind: "putNamed", i: 2, name: "", signer: "C"},
		cntOp{kind: "putNamed", i: 1, name: "nice", signer: "S"},
		cntOp{kind: "putNamed", i: 0, name: "other", signer: "C"},
		cntOp{kind: "putNamed", i: 2, name: "other", signer: "C"},
		cntOp{kind: "putNamed", i: 0, name: "pre", signer: "C"}, // a name on the domain the committee registered in advance
		cntOp{kind: "putNamed", i: 1, name: "pre", signer: "C"},
		cntOp{kind: "putMeta", i: 0, signer: "C"},
		cntOp{kind: "putMeta", i: 2, signer: "C"},
		cntOp{kind: "setEACL", i: 0, table: 1, signer: "C"},
		cntOp{kind: "setEACL", i: 0, table: 2, signer: "C"},
		cntOp{kind: "setEACL", i: 2, table: 1, signer: "C"},
		cntOp{kind: "setEACL", i: 3, table: 1, signer: "C"},
		cntOp{kind: "put", i: 1, signer: "S"},
		cntOp{kind: "delete", i: 0, signer: "S"},
		cntOp{kind: "setEACL", i: 0, table: 1, signer: "S"},
		cntOp{kind: "time"},
		// the zone's TLD renewed by the committee: after the clock jump the alias domains have expired under a live TLD
		cntOp{kind: "renewTLD"},
		// other methods of the contract: whatever they do, they announce no put, delete or eACL change
		cntOp{kind: "other", name: "newEpoch"}, cntOp{kind: "other", name: "commitContainerListUpdate"},
		cntOp{kind: "put", i: 1, signer: "C", noTok: true},
		cntOp{kind: "putMeta", i: 3, signer: "C", noTok: true, metaOff: true},
		cntOp{kind: "setEACL", i: 0, table: 3, signer: "C", off: 4},
		cntOp{kind: "setEACL", i: 2, table: 3, signer: "C", off: 4},
	)
	return d
}

const tenYearsMs = uint64(3600*24*365*10) * 1000

func (d *CntDriver) Build() *World {
	w := NewWorld(1)
	w.Deploy("nns", CompileDir(Repo, "nns"), []any{[]any{[]any{"neofs", "ops@x.y"}}})
	dn := w.Deploy("netmap", CompileDir(Repo, "netmap"), []any{false, util.Uint160{}, util.Uint160{}, []any{}, []any{[]byte("ContainerFee"), int64(0), []byte("ContainerAliasFee"), int64(0)}})
	w.RegisterNNS("netmap", dn.Hash)
	db := w.Deploy("balance", CompileDir(Repo, "balance"), []any{false, util.Uint160{}, util.Uint160{}})
	w.RegisterNNS("balance", db.Hash)
	di := w.Deploy("neofsid", CompileDir(Repo, "neofsid"), []any{false})
	w.RegisterNNS("neofsid", di.Hash)
	w.Deploy("container", CompileDir(Repo, "container"), []any{int64(0), dn.Hash, db.Hash, di.Hash, w.Contracts["nns"].Hash, "container"})
	tb, _ := w.BC.GetBlock(w.BC.GetHeaderHash(w.BC.BlockHeight()))
	d.tldTS = tb.Timestamp
	// a domain of the alias zone registered in advance by the committee, which owns it (the other way a name gets
	// there; the contract then only adds and removes records)
	w.Invoke(w.Contracts["nns"].Hash, []neotest.Signer{w.CommS}, "register", "pre.container", w.Comm, "a@b.c", int64(3600), int64(600), int64(tenYearsMs/1000), int64(3600))
	tb, _ = w.BC.GetBlock(w.BC.GetHeaderHash(w.BC.BlockHeight()))
	d.preTS = tb.Timestamp
	w.Acct("S")
	w.Freeze()
	return w
}

func (d *CntDriver) Init(w *World) Model {
	// container TLD was registered in the block that deployed the container contract
	return &cntModel{doms: map[string]nnsDom{"pre.container": {exp: d.preTS + tenYearsMs}}, now: w.TS, tldExp: d.tldTS + tenYearsMs}
}
func (d *CntDriver) NumOps() int { return len(d.ops) }
func (d *CntDriver) OpName(_ *Node, i int) string {
	o := d.ops[i]
	switch o.kind {
	case "time":
		return "advance(10y+1ms)"
	case "renewTLD":
		return "nns.renew(container TLD, 10 years) by the committee"
	case "other":
		return "container." + o.name + "(...) by C"
	case "putNamed":
		return fmt.Sprintf("putNamed(b%d,%q)by %s", o.i, o.name, o.signer)
	case "setEACL":
		return fmt.Sprintf("setEACL(c%d,t%d)by %s", o.i, o.table, o.signer)
	}
	x := ""
	if o.noTok {
		x = ",no session token"
	}
	if o.metaOff {
		x += ",meta=false"
	}
	return fmt.Sprintf("%s(b%d%s)by %s", o.kind, o.i, x, o.signer)
}
func (d *CntDriver) Enabled(n *Node, i int) bool {
	m := n.M.(*cntModel)
	if d.ops[i].kind == "time" {
		return m.jumps < 2
	}
	if d.ops[i].kind == "renewTLD" {
		return m.renews < 1
	}
	if d.ops[i].kind == "other" {
		return m.others < 1
	}
	return true
}

func (d *CntDriver) eaclBlob(i, table int) []byte { return d.eaclBlobOff(i, table, 0) }

// eaclBlobOff: the container reference sits behind a version field of off bytes (the contract reads its length).
func (d *CntDriver) eaclBlobOff(i, table, off int) []byte {
	b := make([]byte, 2+off+4+32+4)
	b[1] = byte(off)
	copy(b[2+off+4:], d.cids[i])
	b[len(b)-1] = byte(table)
	return b
}

func (d *CntDriver) Step(x *Exec, n *Node, i int) StepResult {
	w := x.W
	m := n.M.(*cntModel)
	nm := m.Clone().(*cntModel)
	o := d.ops[i]
	h := w.Contracts["container"].Hash
	nnsH := w.Contracts["nns"].Hash
	viol := func(class, msg string, where map[string]any) StepResult {
		return StepResult{V: Viol(class, msg, where), Outcome: "violation"}
	}
	if o.kind == "other" {
		var scr []byte
		switch o.name {
		case "newEpoch":
			scr = Script(h, "newEpoch", int64(m.others+1))
		case "commitContainerListUpdate":
			scr = Script(h, "commitContainerListUpdate", d.cids[0], []any{int64(1)})
		default:
			scr = Script(h, "addNextEpochNodes", d.cids[0], int64(0), []any{d.key33})
		}
		ob, n2 := x.Do(n, Call{Script: scr, Signers: []util.Uint160{w.Alpha}, Label: d.OpName(n, i)})
		for _, nf := range ob.Notifs {
			if nf.Contract == "container" && (nf.Name == "PutSuccess" || nf.Name == "DeleteSuccess" || nf.Name == "SetEACLSuccess") {
				return viol("notifications", fmt.Sprintf("%s emitted %v", d.OpName(n, i), nf), map[string]any{"op": o.name})
			}
		}
		nm.others++
		n2.M = nm
		out := "FAULT"
		if ob.Halt {
			out = "HALT"
		}
		return StepResult{Next: n2, Outcome: out, Changed: ob.Halt}
	}
	if o.kind == "renewTLD" {
		ob, n2 := x.Do(n, Call{Script: Script(nnsH, "renew", "container", int64(10)), Signers: []util.Uint160{w.Comm}, Label: d.OpName(n, i)})
		if ob.Halt != (m.now < m.tldExp) {
			return viol("outcome", fmt.Sprintf("renew of the TLD: halt=%v %q (TLD alive: %v)", ob.Halt, ob.Fault, m.now < m.tldExp), map[string]any{"op": "renewTLD"})
		}
		if !ob.Halt {
			n2.M = m
			return StepResult{Next: n2, Outcome: "FAULT"}
		}
		nm.tldExp += tenYearsMs
		nm.renews++
		n2.M = nm
		return StepResult{Next: n2, Outcome: "HALT", Changed: true}
	}
	if o.kind == "time" {
		nm.now = m.now + tenYearsMs + 1
		nm.jumps++
		return StepResult{Next: &Node{L: n.L, H: n.H + 1, TS: nm.now, M: nm}, Outcome: "CLOCK", Changed: true}
	}
	var signers []util.Uint160
	alpha := o.signer == "C"
	if alpha {
		signers = []util.Uint160{w.Alpha}
	} else {
		signers = []util.Uint160{w.Acct("S").Hash}
	}
	sig := []byte("sig-64-bytes-not-checked-by-the-contract")
	tok := []byte("session-token")
	var scr []byte
	expHalt := true
	freeLeftover := false
	var expNotif []Notif
	cidx := "x" + Hx(d.cids[o.i])
	domAlive := func(dom string) bool {
		dd, ok := m.doms[dom]
		return ok && m.now < dd.exp && m.now < m.tldExp
	}
	switch o.kind {
	case "put", "putNamed", "putMeta":
		name := o.name
		switch o.kind {
		case "put":
			scr = Script(h, "put", d.blobs[o.i], sig, d.key33, tok)
			if o.noTok {
				scr = Script(h, "put", d.blobs[o.i], sig, d.key33, []byte{})
			}
		case "putNamed":
			scr = Script(h, "putNamed", d.blobs[o.i], sig, d.key33, tok, name, "")
		case "putMeta":
			scr = Script(h, "put", d.blobs[o.i], sig, d.key33, tok, true)
			if o.metaOff {
				scr = Script(h, "put", d.blobs[o.i], sig, d.key33, []byte{}, false)
			}
		}
		rec := &nm.c[o.i]
		switch {
		case m.c[o.i].dead:
			expHalt = false
		case !alpha:
			expHalt = false
		default:
			if name != "" {
				dom := name + ".container"
				if domAlive(dom) {
					if len(m.doms[dom].recs) > 0 {
						expHalt = false // name is already taken
						// ... unless only by what the finding `earlier-alias-record-left` leaves behind (records of
						// containers that are dead or have moved on to another name): a contract that repairs the
						// finding accepts this put, today's refuses it; both are fine
						leftover := true
						for _, rc := range m.doms[dom].recs {
							for j := range m.c {
								if base58.Encode(d.cids[j]) == rc && m.c[j].live && m.c[j].alias == dom {
									leftover = false
								}
							}
						}
						if leftover {
							freeLeftover = true
						}
					}
				} else if m.now >= m.tldExp {
					expHalt = false // TLD expired: cannot register
				} else {
					shared := false
					if _, was := m.doms[dom]; was {
						for j := range m.c {
							if m.c[j].live && m.c[j].alias == dom && j != o.i {
								shared = true
							}
						}
					}
					nm.doms[dom] = nnsDom{exp: m.now + tenYearsMs, reReg: shared}
				}
				if expHalt {
					dd := nm.doms[dom]
					dd.recs = append(dd.recs, base58.Encode(d.cids[o.i]))
					nm.doms[dom] = dd
					rec.alias = dom
				}
			}
			if expHalt {
				rec.live = true
				if o.kind == "putMeta" && !o.metaOff {
					rec.meta = true
				}
				expNotif = []Notif{{"container", "PutSuccess", []any{cidx, "x" + Hx(d.key33)}}}
			}
		}
	case "delete":
		scr = Script(h, "delete", d.cids[o.i], sig, tok)
		if m.c[o.i].live {
			if !alpha {
				expHalt = false
			} else {
				rec := &nm.c[o.i]
				if rec.alias != "" {
					if domAlive(rec.alias) {
						dd := nm.doms[rec.alias]
						dd.recs = nil
						nm.doms[rec.alias] = dd
					}
				}
				*rec = cntRec{dead: true}
				expNotif = []Notif{{"container", "DeleteSuccess", []any{cidx}}}
			}
		}
		// missing container: silently succeeds, nothing changes
	case "setEACL":
		scr = Script(h, "setEACL", d.eaclBlobOff(o.i, o.table, o.off), sig, d.key33, tok)
		if !m.c[o.i].live || !alpha {
			expHalt = false
		} else {
			nm.c[o.i].eacl = o.table
			expNotif = []Notif{{"container", "SetEACLSuccess", []any{cidx, "x" + Hx(d.key33)}}}
		}
	}
	if n.TS != m.now {
		hpanic("C04: model clock %d != node clock %d", m.now, n.TS)
	}
	obs, nn := x.Do(n, Call{Script: scr, Signers: signers, Label: d.OpName(n, i)})
	layer, next := n.L, nn.L
	where := map[string]any{"op": o.kind}
	outcome := "FAULT"
	if obs.Halt {
		outcome = "HALT"
	}
	// deleting an id that is not live: the statement fixes no outcome (silent success today, the method's own
	// comment speaks of a NotFound panic), only that nothing happens
	free := o.kind == "delete" && !m.c[o.i].live // whoever asks
	if freeLeftover && obs.Halt {
		// the repaired behaviour: the model cannot follow it (it mirrors what today's contract leaves behind), so the
		// path ends here without a verdict
		return StepResult{Next: &Node{L: n.L, H: n.H, TS: n.TS, M: m}, Outcome: "HALT:unmodelled-repair"}
	}
	if obs.Halt != expHalt && !free {
		return viol("outcome", fmt.Sprintf("expected halt=%v got halt=%v fault=%q", expHalt, obs.Halt, obs.Fault), where)
	}
	changed := len(DiffDumps(w.FullDump(layer), w.FullDump(next))) > 0
	if !obs.Halt {
		nn.M = m
		return StepResult{Next: nn, Outcome: outcome}
	}
	var got []Notif
	for _, n := range obs.Notifs {
		if n.Contract == "container" {
			got = append(got, n)
		}
	}
	if fmt.Sprint(got) != fmt.Sprint(expNotif) {
		return viol("notifications", fmt.Sprintf("got %v want %v", got, expNotif), where)
	}
	if expNotif == nil && changed {
		return viol("silent-change", "invocation without success notification changed state", where)
	}
	// ---- read API vs model ----
	rd := func(method string, args ...any) Obs { return w.Read(next, nn.H, nn.TS, h, method, args...) }
	notFound := func(o Obs) bool { return !o.Halt && strings.Contains(o.Fault, containerconst.NotFoundError) }
	var liveAll []string
	var soft []*Violation
	liveBy := map[int][]string{}
	for j := 0; j < 4; j++ {
		r := nm.c[j]
		where := map[string]any{"op": o.kind, "container": j}
		g := rd("get", d.cids[j])
		ow := rd("owner", d.cids[j])
		al := rd("alias", d.cids[j])
		ea := rd("eACL", d.cids[j])
		if r.live {
			liveAll = append(liveAll, "x"+Hx(d.cids[j]))
			liveBy[d.ownerOf[j]] = append(liveBy[d.ownerOf[j]], "x"+Hx(d.cids[j]))
			if !g.Halt || g.Stack[0].([]any)[0] != "x"+Hx(d.blobs[j]) {
				return viol("get", fmt.Sprintf("get(c%d) = %v %q", j, g.Stack, g.Fault), where)
			}
			if !ow.Halt || ow.Stack[0] != "x"+Hx(d.owners[d.ownerOf[j]]) {
				return viol("owner", fmt.Sprintf("owner(c%d) = %v %q", j, ow.Stack, ow.Fault), where)
			}
			wantAlias := any(nil)
			if r.alias != "" {
				wantAlias = "x" + Hx([]byte(r.alias))
			}
			if !al.Halt || al.Stack[0] != wantAlias {
				return viol("alias", fmt.Sprintf("alias(c%d) = %v %q want %v", j, al.Stack, al.Fault, wantAlias), where)
			}
			if !ea.Halt {
				return viol("eacl", fmt.Sprintf("eACL(c%d) faults: %s", j, ea.Fault), where)
			}
			gotE := ea.Stack[0].([]any)[0]
			wantE := "x"
			if r.eacl != 0 {
				off := 0
				if r.eacl == 3 {
					off = 4 // table 3 is the one sent with a four-byte version field
				}
				wantE = "x" + Hx(d.eaclBlobOff(j, r.eacl, off))
			}
			if gotE != wantE {
				return viol("eacl", fmt.Sprintf("eACL(c%d) = %v want %v", j, gotE, wantE), where)
			}
			if r.alias != "" && nm.now < nm.doms[r.alias].exp && nm.now < nm.tldExp {
				rr := w.Read(next, nn.H, nn.TS, nnsH, "getRecords", r.alias, int64(16))
				if !rr.Halt || !strings.Contains(fmt.Sprint(rr.Stack[0]), Hx([]byte(base58.Encode(d.cids[j])))) {
					if nm.doms[r.alias].reReg {
						where["alias_domain_shared_after_expiry"] = true
					}
					return viol("alias-record", fmt.Sprintf("getRecords(%s) = %v %q", r.alias, rr.Stack, rr.Fault), where)
				}
			}
		} else {
			for name, x := range map[string]Obs{"get": g, "owner": ow, "alias": al, "eACL": ea} {
				if !notFound(x) {
					return viol("not-found", fmt.Sprintf("%s(c%d) on a non-live id: halt=%v %v %q", name, j, x.Halt, x.Stack, x.Fault), where)
				}
			}
		}
		// a container deleted in this step: no other domain it was ever named after may still carry its id
		// (the model mirrors what the contract leaves behind, so this is reported softly and the path goes on)
		if r.dead && m.c[j].live {
			id58 := base58.Encode(d.cids[j])
			for dom, dd := range nm.doms {
				if dom == m.c[j].alias || m.now >= dd.exp {
					continue
				}
				for _, rc := range dd.recs {
					if rc != id58 {
						continue
					}
					rr := w.Read(next, nn.H, nn.TS, nnsH, "getRecords", dom, int64(16))
					if rr.Halt && strings.Contains(fmt.Sprint(rr.Stack[0]), Hx([]byte(id58))) {
						soft = append(soft, Viol("alias-record-left", fmt.Sprintf("after delete(c%d) the domain %s, an earlier name of the container, still resolves to it: %v", j, dom, rr.Stack), map[string]any{"op": o.kind, "container": j, "earlier_alias": true}))
					}
				}
			}
		}
		// deleted container: its former alias domain must not carry its id any more
		if r.dead && m.c[j].live && m.c[j].alias != "" && domAlive(m.c[j].alias) {
			rr := w.Read(next, nn.H, nn.TS, nnsH, "getRecords", m.c[j].alias, int64(16))
			if rr.Halt && strings.Contains(fmt.Sprint(rr.Stack[0]), Hx([]byte(base58.Encode(d.cids[j])))) {
				return viol("alias-record-left", fmt.Sprintf("getRecords(%s) still = %v", m.c[j].alias, rr.Stack), where)
			}
		}
	}
	for name, x := range map[string]Obs{"get": rd("get", d.never), "owner": rd("owner", d.never), "alias": rd("alias", d.never), "eACL": rd("eACL", d.never)} {
		if !notFound(x) {
			return viol("not-found", fmt.Sprintf("%s(never-put id): %v %q", name, x.Stack, x.Fault), where)
		}
	}
	cnt := rd("count")
	if !cnt.Halt || cnt.Stack[0] != fmt.Sprintf("i%d", len(liveAll)) {
		return viol("count", fmt.Sprintf("count = %v model %d", cnt.Stack, len(liveAll)), where)
	}
	setEq := func(o Obs, want []string) bool {
		if !o.Halt {
			return false
		}
		var got []string
		if o.Stack[0] != nil {
			for _, x := range o.Stack[0].([]any) {
				got = append(got, x.(string))
			}
		}
		sort.Strings(got)
		w2 := append([]string{}, want...)
		sort.Strings(w2)
		return fmt.Sprint(got) == fmt.Sprint(w2)
	}
	if l := rd("list", []byte{}); !setEq(l, liveAll) {
		return viol("list-all", fmt.Sprintf("list('') = %v model %v", l.Stack, liveAll), where)
	}
	if l := rd("containersOf", []byte{}); !setEq(l, liveAll) {
		return viol("containersOf-all", fmt.Sprintf("containersOf('') = %v model %v", l.Stack, liveAll), where)
	}
	for k := 0; k < 2; k++ {
		if l := rd("list", d.owners[k]); !setEq(l, liveBy[k]) {
			return viol("list-owner", fmt.Sprintf("list(O%d) = %v model %v", k, l.Stack, liveBy[k]), where)
		}
		if l := rd("containersOf", d.owners[k]); !setEq(l, liveBy[k]) {
			return viol("containersOf-owner", fmt.Sprintf("containersOf(O%d) = %v model %v", k, l.Stack, liveBy[k]), where)
		}
	}
	// raw scan: which container id holds a record of each of the six key families (the meta flag and the tombstone
	// have no getter: a flag written or removed under the wrong id shows only here)
	gotK := map[string][]string{}
	for _, kv := range w.Dump(next, "container") {
		k := string(kv.K)
		fam, id := "", ""
		switch {
		case len(k) == 33 && k[0] == 'x':
			fam, id = "x", k[1:]
		case len(k) == 58 && k[0] == 'o':
			fam, id = "o", k[26:]
		case len(k) == 33 && k[0] == 'd':
			fam, id = "d", k[1:]
		case len(k) == 36 && strings.HasPrefix(k, "eACL"):
			fam, id = "eACL", k[4:]
		case len(k) == 43 && strings.HasPrefix(k, "nnsHasAlias"):
			fam, id = "alias", k[11:]
		case len(k) == 33 && k[0] == 'm':
			fam, id = "m", k[1:]
		}
		if fam != "" {
			gotK[fam] = append(gotK[fam], Hx([]byte(id)))
		}
	}
	wantK := map[string][]string{}
	for j, r := range nm.c {
		id := Hx(d.cids[j])
		if r.live {
			wantK["x"] = append(wantK["x"], id)
			wantK["o"] = append(wantK["o"], id)
			if r.eacl != 0 {
				wantK["eACL"] = append(wantK["eACL"], id)
			}
			if r.alias != "" {
				wantK["alias"] = append(wantK["alias"], id)
			}
			if r.meta {
				wantK["m"] = append(wantK["m"], id)
			}
		}
		if r.dead {
			wantK["d"] = append(wantK["d"], id)
		}
	}
	for _, fam := range []string{"x", "o", "d", "eACL", "alias", "m"} {
		sort.Strings(gotK[fam])
		sort.Strings(wantK[fam])
		if fmt.Sprint(gotK[fam]) != fmt.Sprint(wantK[fam]) {
			where["family"] = fam
			return viol("raw-scan", fmt.Sprintf("records of family %q exist for ids %v, model %v", fam, gotK[fam], wantK[fam]), where)
		}
	}
	nn.M = nm
	return StepResult{Next: nn, Outcome: outcome, Changed: changed, Soft: soft}
}
