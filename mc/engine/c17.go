package engine

import (
	"crypto/sha256"
	"fmt"
	"github.com/nspcc-dev/neo-go/pkg/compiler"
	"sort"

	"github.com/nspcc-dev/neo-go/pkg/core/dao"
	"github.com/nspcc-dev/neo-go/pkg/neotest"
	"github.com/nspcc-dev/neo-go/pkg/util"
)

// C17: vote-collected actions of the main-chain NeoFS contract running without Notary.

type ballot struct {
	voters []int // member numbers (-1 = the nil voter a stranger would be)
	height int   // ledger.CurrentIndex() of the last counted vote
}

type voteModel struct {
	ballots    map[string]ballot
	cfg        string // value of config key "k" ("" = unset)
	gasU, gasC int64
	alpha      []int // stored Alphabet list as member numbers
	candX      bool
	introduced int
	advances   int
}

func (m *voteModel) Clone() Model {
	c := &voteModel{ballots: map[string]ballot{}, cfg: m.cfg, gasU: m.gasU, gasC: m.gasC, alpha: append([]int{}, m.alpha...), candX: m.candX, introduced: m.introduced, advances: m.advances}
	for k, v := range m.ballots {
		c.ballots[k] = ballot{append([]int{}, v.voters...), v.height}
	}
	return c
}

// Key carries the whole model: if the contract ever deviates from it in a way storage does
// not show at once (a ballot height), states reached along different paths must not merge.
func (m *voteModel) Key() []byte {
	ids := make([]string, 0, len(m.ballots))
	for id := range m.ballots {
		ids = append(ids, id)
	}
	sort.Strings(ids)
	s := fmt.Sprint(m.introduced, m.advances, m.cfg, m.gasU, m.gasC, m.alpha, m.candX)
	for _, id := range ids {
		s += fmt.Sprint(id, m.ballots[id])
	}
	return []byte(s)
}

type voteOp struct {
	kind  string // setA setB cheque alphaUpd candRm advance
	who   int    // member number, -1 stranger, -2 the candidate itself
	delta uint32
	fwd   bool // the call is forwarded by a contract that assembles the decision id from two halves (a Buffer, not a ByteString)
}

type VoteDriver struct {
	N        int
	Symmetry bool
	MaxAdv   int
	ops      []voteOp
	members  []*Account
	x, u, s  *Account
}

func NewVoteDriver(n int, symmetry bool, full bool) *VoteDriver {
	d := &VoteDriver{N: n, Symmetry: symmetry, MaxAdv: 3}
	// alphaShrink drops the last key (under the symmetry reduction: the member that votes last), alphaDrop0 the first
	// one (the member that votes first): together they cover "a voter leaves" and "a non-voter leaves"
	// chequeBig asks for more than the contract holds: the invocation that completes the decision faults, the vote
	// it carried is rolled back with it and the ballot stays one short
	kinds := []string{"setA", "setB", "cheque", "chequeBig", "alphaUpd", "alphaShrink", "alphaDrop0", "candRm"}
	deltas := []uint32{1, 19, 20, 21}
	if !full {
		// (n = 5..7, thorough tier) every one of the four methods has its own copy of the threshold arithmetic
		kinds = []string{"setA", "setB", "cheque", "alphaUpd", "candRm"}
		deltas = []uint32{1, 20, 21}
		d.MaxAdv = 2
	}
	for _, k := range kinds {
		for i := 0; i < n; i++ {
			d.ops = append(d.ops, voteOp{kind: k, who: i})
		}
		d.ops = append(d.ops, voteOp{kind: k, who: -1})
	}
	if full {
		d.ops = append(d.ops, voteOp{kind: "candRm", who: -2})
	}
	for _, dl := range deltas {
		d.ops = append(d.ops, voteOp{kind: "advance", delta: dl})
	}
	return d
}

// NewVoteTimingDriver restricts the alphabet to votes for three ids (two setConfig, one cheque) by every member and
// clock steps, with more waits allowed: histories of two live ballots whose gaps interleave.
func NewVoteTimingDriver(n int) *VoteDriver {
	d := &VoteDriver{N: n, Symmetry: n >= 3, MaxAdv: 4}
	// three decision ids, so that three ballots can be pending at once and be completed in any order
	for _, k := range []string{"setA", "setB", "cheque"} {
		for i := 0; i < n; i++ {
			d.ops = append(d.ops, voteOp{kind: k, who: i})
		}
	}
	for _, dl := range []uint32{1, 10, 19, 21} {
		d.ops = append(d.ops, voteOp{kind: "advance", delta: dl})
	}
	return d
}

// NewVoteCallersDriver: votes that reach the contract in unusual ways - forwarded by a contract that assembles the
// decision id from two halves (the id arrives as a Buffer), and a cheque whose payee is a contract that presents the
// same cheque again while it is being paid - next to direct votes for the same and for another id.
func NewVoteCallersDriver(n int) *VoteDriver {
	d := &VoteDriver{N: n, Symmetry: n >= 3, MaxAdv: 2}
	for i := 0; i < n; i++ {
		d.ops = append(d.ops, voteOp{kind: "setA", who: i}, voteOp{kind: "setA", who: i, fwd: true}, voteOp{kind: "setB", who: i}, voteOp{kind: "chequeP", who: i})
	}
	for _, dl := range []uint32{1, 21} {
		d.ops = append(d.ops, voteOp{kind: "advance", delta: dl})
	}
	return d
}

const voteFwdSrc = `package votefwd

import (
	"github.com/nspcc-dev/neo-go/pkg/interop"
	"github.com/nspcc-dev/neo-go/pkg/interop/contract"
)

func SetConfig(neofs interop.Hash160, idHead, idTail, key, val []byte) {
	id := append(idHead, idTail...)
	contract.Call(neofs, "setConfig", contract.All, id, key, val)
}
`

// a payee contract that presents the cheque it is being paid for once more from inside its payment callback (under
// the voter's witness, which the nested call inherits)
const votePayeeSrc = `package votepayee

import (
	"github.com/nspcc-dev/neo-go/pkg/interop"
	"github.com/nspcc-dev/neo-go/pkg/interop/contract"
	"github.com/nspcc-dev/neo-go/pkg/interop/runtime"
	"github.com/nspcc-dev/neo-go/pkg/interop/storage"
)

func Arm(neofs interop.Hash160, id []byte) {
	ctx := storage.GetContext()
	storage.Put(ctx, "neofs", neofs)
	storage.Put(ctx, "id", id)
}

func OnNEP17Payment(from interop.Hash160, amount int, data any) {
	ctx := storage.GetContext()
	neofs := storage.Get(ctx, "neofs").(interop.Hash160)
	if from.Equals(neofs) {
		contract.Call(neofs, "cheque", contract.All, storage.Get(ctx, "id").([]byte), runtime.GetExecutingScriptHash(), amount, []byte("lock"))
	}
}
`

const c17Deposit = 100_0000_0000

func (d *VoteDriver) Build() *World {
	w := NewWorld(1)
	d.members = nil
	var ks []any
	for i := 0; i < d.N; i++ {
		a := w.Acct(fmt.Sprintf("ir%d", i))
		d.members = append(d.members, a)
		ks = append(ks, a.Pub())
	}
	d.x, d.u, d.s = w.Acct("X"), w.Acct("U"), w.Acct("S")
	w.FundGAS(d.x.Hash, 10_0000_0000)
	w.FundGAS(d.u.Hash, 1000_0000_0000)
	cfg := []any{[]byte("InnerRingCandidateFee"), int64(1_0000_0000), []byte("WithdrawFee"), int64(1000)}
	nf := w.Deploy("neofs", CompileDir(Repo, "neofs"), []any{true, util.Uint160{1}, ks, cfg})
	// fund the contract (a deposit by U) and register the candidate X
	w.Invoke(w.GasHash, []neotest.Signer{d.u.S}, "transfer", d.u.Hash, nf.Hash, int64(c17Deposit), nil)
	w.Invoke(nf.Hash, []neotest.Signer{d.x.S}, "innerRingCandidateAdd", d.x.Pub())
	w.Deploy("votefwd", CompileSource("votefwd", voteFwdSrc, &compiler.Options{Name: "votefwd", NoEventsCheck: true, NoPermissionsCheck: true, Permissions: WildPermissions()}), nil)
	vp := w.Deploy("votepayee", CompileSource("votepayee", votePayeeSrc, &compiler.Options{Name: "votepayee", NoEventsCheck: true, NoPermissionsCheck: true, Permissions: WildPermissions()}), nil)
	w.Invoke(vp.Hash, []neotest.Signer{d.u.S}, "arm", nf.Hash, voteID("idP"))
	w.Track("U", d.u.Hash, false)
	w.Track("neofs", nf.Hash, false)
	w.Freeze()
	return w
}

func (d *VoteDriver) Init(w *World) Model {
	m := &voteModel{ballots: map[string]ballot{}, candX: true}
	for i := 0; i < d.N; i++ {
		m.alpha = append(m.alpha, i)
	}
	m.gasU = gasOf(w, w.Root, d.u.Hash)
	m.gasC = gasOf(w, w.Root, w.Contracts["neofs"].Hash)
	return m
}

func (d *VoteDriver) NumOps() int { return len(d.ops) }
func (d *VoteDriver) who(i int) string {
	switch i {
	case -1:
		return "stranger"
	case -2:
		return "candidate X"
	}
	return fmt.Sprintf("member %d", i)
}
func (d *VoteDriver) OpName(_ *Node, i int) string {
	o := d.ops[i]
	switch o.kind {
	case "advance":
		return fmt.Sprintf("advance %d blocks", o.delta)
	case "setA":
		if o.fwd {
			return "setConfig(idA,k,v1) forwarded by a contract, signed by " + d.who(o.who)
		}
		return "setConfig(idA,k,v1) by " + d.who(o.who)
	case "setB":
		return "setConfig(idB,k,v2) by " + d.who(o.who)
	case "cheque":
		return "cheque(idC,U,5) by " + d.who(o.who)
	case "chequeBig":
		return "cheque(idG,U,more than the contract holds) by " + d.who(o.who)
	case "chequeP":
		return "cheque(idP,re-entering payee contract,5) by " + d.who(o.who)
	case "alphaUpd":
		return "alphabetUpdate(idD,rotated list) by " + d.who(o.who)
	case "alphaShrink":
		return "alphabetUpdate(idE,list without its last key) by " + d.who(o.who)
	case "alphaDrop0":
		return "alphabetUpdate(idF,list without its first key) by " + d.who(o.who)
	}
	return "innerRingCandidateRemove(X) by " + d.who(o.who)
}
func (d *VoteDriver) Enabled(n *Node, i int) bool {
	m := n.M.(*voteModel)
	o := d.ops[i]
	if o.kind == "advance" {
		return m.advances < d.MaxAdv
	}
	if d.Symmetry && o.who >= 0 && o.who > m.introduced {
		return false // the contract only compares keys for equality: new voters are introduced in index order
	}
	return true
}

func voteID(s string) []byte { h := sha256.Sum256([]byte(s)); return h[:] }

func (d *VoteDriver) Step(x *Exec, n *Node, i int) StepResult {
	w := x.W
	m := n.M.(*voteModel)
	nm := m.Clone().(*voteModel)
	o := d.ops[i]
	h := w.Contracts["neofs"].Hash
	where := map[string]any{"op": o.kind, "n": d.N}
	viol := func(class, msg string) StepResult {
		return StepResult{V: Viol(class, msg, where), Outcome: "violation"}
	}
	if o.kind == "advance" {
		nm.advances++
		return StepResult{Next: &Node{L: n.L, H: n.H + o.delta, TS: n.TS + uint64(o.delta)*1000, M: nm}, Outcome: "CLOCK"}
	}
	var signer util.Uint160
	switch o.who {
	case -1:
		signer = d.s.Hash
	case -2:
		signer = d.x.Hash
	default:
		signer = d.members[o.who].Hash
		if d.Symmetry && o.who == m.introduced {
			nm.introduced++
		}
	}
	var scr []byte
	var id string
	var rotated []int
	switch o.kind {
	case "setA":
		id = "idA"
		scr = Script(h, "setConfig", voteID(id), []byte("k"), []byte("v1"))
		if o.fwd {
			scr = Script(w.Contracts["votefwd"].Hash, "setConfig", h, voteID(id)[:16], voteID(id)[16:], []byte("k"), []byte("v1"))
		}
	case "setB":
		id = "idB"
		scr = Script(h, "setConfig", voteID(id), []byte("k"), []byte("v2"))
	case "cheque":
		id = "idC"
		scr = Script(h, "cheque", voteID(id), d.u.Hash, int64(5), []byte("lock"))
	case "chequeP":
		id = "idP"
		scr = Script(h, "cheque", voteID(id), w.Contracts["votepayee"].Hash, int64(5), []byte("lock"))
	case "chequeBig":
		id = "idG"
		scr = Script(h, "cheque", voteID(id), d.u.Hash, int64(2*c17Deposit), []byte("lock"))
	case "alphaUpd":
		id = "idD"
		rotated = append(append([]int{}, m.alpha[1:]...), m.alpha[0])
		var ks []any
		for _, k := range rotated {
			ks = append(ks, d.members[k].Pub())
		}
		scr = Script(h, "alphabetUpdate", voteID(id), ks)
	case "alphaDrop0":
		id = "idF"
		rotated = append([]int{}, m.alpha...)
		if len(rotated) > 1 {
			rotated = rotated[1:]
		}
		var ks []any
		for _, k := range rotated {
			ks = append(ks, d.members[k].Pub())
		}
		scr = Script(h, "alphabetUpdate", voteID(id), ks)
	case "alphaShrink":
		id = "idE"
		rotated = append([]int{}, m.alpha...)
		if len(rotated) > 1 {
			rotated = rotated[:len(rotated)-1]
		}
		var ks []any
		for _, k := range rotated {
			ks = append(ks, d.members[k].Pub())
		}
		scr = Script(h, "alphabetUpdate", voteID(id), ks)
	case "candRm":
		id = "rmX"
		scr = Script(h, "innerRingCandidateRemove", d.x.Pub())
	}
	// ---- model ----
	now := int(n.H) - 1
	threshold := len(m.alpha)*2/3 + 1
	expHalt := true
	fired := false
	var expN []Notif
	isMember := o.who >= 0 && containsInt(m.alpha, o.who)
	switch {
	case o.who == -2 && o.kind == "candRm":
		fired = true // the candidate removes itself at once
	case !isMember:
		expHalt = false
	default:
		b, ok := m.ballots[id]
		alive := ok && now-b.height <= 20
		if alive && containsInt(b.voters, o.who) {
			// a repeated vote counts once: nothing changes - unless the Alphabet has shrunk in
			// the meantime and the votes already cast now reach the (new) threshold
			if len(b.voters) >= threshold {
				fired = true
				delete(nm.ballots, id)
			}
		} else {
			var vs []int
			if alive {
				vs = append(vs, b.voters...)
			}
			vs = append(vs, o.who)
			if len(vs) >= threshold {
				fired = true
				delete(nm.ballots, id)
			} else {
				nm.ballots[id] = ballot{vs, now}
			}
		}
	}
	if fired && o.kind == "chequeBig" {
		// the payment cannot be made: the whole invocation faults, nothing of it stays (not even the vote)
		fired, expHalt = false, false
		nm = m.Clone().(*voteModel)
	}
	if fired {
		switch o.kind {
		case "setA":
			nm.cfg = "v1"
			expN = []Notif{{"neofs", "SetConfig", []any{NX(voteID(id)), NXs("k"), NXs("v1")}}}
		case "setB":
			nm.cfg = "v2"
			expN = []Notif{{"neofs", "SetConfig", []any{NX(voteID(id)), NXs("k"), NXs("v2")}}}
		case "cheque":
			nm.gasU += 5
			nm.gasC -= 5
			expN = []Notif{{"GAS", "Transfer", []any{NX(h.BytesBE()), NX(d.u.Hash.BytesBE()), "i5"}},
				{"neofs", "Cheque", []any{NX(voteID(id)), NX(d.u.Hash.BytesBE()), "i5", NXs("lock")}}}
		case "chequeP":
			nm.gasC -= 5
			p := w.Contracts["votepayee"].Hash
			expN = []Notif{{"GAS", "Transfer", []any{NX(h.BytesBE()), NX(p.BytesBE()), "i5"}},
				{"neofs", "Cheque", []any{NX(voteID(id)), NX(p.BytesBE()), "i5", NXs("lock")}}}
			// the nested presentation arrives after the decision has been carried out and its ballot removed: it is the
			// first vote of a new ballot for the same id (the committee sizes of this exploration need more than one vote)
			nm.ballots[id] = ballot{[]int{o.who}, now}
		case "alphaUpd", "alphaShrink", "alphaDrop0":
			nm.alpha = rotated
			var ks []any
			for _, k := range rotated {
				ks = append(ks, NX(d.members[k].Pub()))
			}
			expN = []Notif{{"neofs", "AlphabetUpdate", []any{NX(voteID(id)), ks}}}
		case "candRm":
			nm.candX = false
		}
	}
	// ---- implementation ----
	obs, nn := x.Do(n, Call{Script: scr, Signers: []util.Uint160{signer}, Label: d.OpName(n, i)})
	diff := DiffDumps(w.FullDump(n.L), w.FullDump(nn.L))
	if !isMember && o.who != -2 || (o.who == -2 && o.kind != "candRm") {
		// anybody else is rejected and never counts
		if obs.Halt || len(diff) > 0 {
			where["method"] = map[string]string{"setA": "setConfig", "setB": "setConfig", "cheque": "cheque", "chequeBig": "cheque", "chequeP": "cheque", "alphaUpd": "alphabetUpdate", "alphaShrink": "alphabetUpdate", "alphaDrop0": "alphabetUpdate", "candRm": "innerRingCandidateRemove"}[o.kind]
			return viol("stranger-vote-counted", fmt.Sprintf("%s: halt=%v, storage diff %v", d.OpName(n, i), obs.Halt, diff))
		}
		nn.M = m
		return StepResult{Next: nn, Outcome: "FAULT"}
	}
	if obs.Halt != expHalt {
		return viol("outcome", fmt.Sprintf("model expects halt=%v, contract halt=%v fault=%q", expHalt, obs.Halt, obs.Fault))
	}
	if !obs.Halt {
		if len(diff) > 0 {
			return viol("refused-but-changed", fmt.Sprint(diff))
		}
		nn.M = m
		return StepResult{Next: nn, Outcome: "FAULT"}
	}
	if !SameNotifSet(obs.Notifs, expN) {
		where["fired_in_model"] = fired
		return viol("decision-timing", fmt.Sprintf("threshold %d of %d; model says fired=%v; notifications %v, expected %v", threshold, len(m.alpha), fired, obs.Notifs, expN))
	}
	// ---- effects read back ----
	if r := w.Read(nn.L, nn.H, nn.TS, h, "config", []byte("k")); !Same(r.Ret0(), cfgVal(nm.cfg)) {
		return viol("config-value", fmt.Sprintf("config(k)=%v model %q", r.Stack, nm.cfg))
	}
	if gu, gc := gasOf(w, nn.L, d.u.Hash), gasOf(w, nn.L, h); gu != nm.gasU || gc != nm.gasC {
		return viol("gas-balances", fmt.Sprintf("GAS U=%d contract=%d; model U=%d contract=%d", gu, gc, nm.gasU, nm.gasC))
	}
	var wantA []any
	for _, k := range nm.alpha {
		wantA = append(wantA, []any{NX(d.members[k].Pub())})
	}
	if r := w.Read(nn.L, nn.H, nn.TS, h, "alphabetList"); !Same(r.Ret0(), wantA) {
		return viol("alphabet-list", fmt.Sprintf("alphabetList=%v model %v", r.Stack, nm.alpha))
	}
	r := w.Read(nn.L, nn.H, nn.TS, h, "innerRingCandidates")
	l, _ := r.Ret0().([]any)
	if (len(l) == 1) != nm.candX || len(l) > 1 {
		return viol("candidates", fmt.Sprintf("innerRingCandidates=%v model present=%v", r.Stack, nm.candX))
	}
	nn.M = nm
	out := "HALT:vote"
	if fired {
		out = "HALT:fired"
	}
	return StepResult{Next: nn, Outcome: out, Changed: len(diff) > 0}
}

func cfgVal(s string) any {
	if s == "" {
		return nil
	}
	return NXs(s)
}

func containsInt(l []int, v int) bool {
	for _, e := range l {
		if e == v {
			return true
		}
	}
	return false
}

// gasOf reads a native GAS balance on top of a layer.
func gasOf(w *World, layer *dao.Simple, h util.Uint160) int64 {
	r := w.Read(layer, w.H, w.TS, w.GasHash, "balanceOf", h)
	b, ok := AsInt(r.Ret0())
	if !ok {
		hpanic("GAS.balanceOf: %v %s", r.Stack, r.Fault)
	}
	return b.Int64()
}
