package engine

import (
	"fmt"
	"sort"
	"strings"

	"github.com/nspcc-dev/neo-go/pkg/compiler"
	"github.com/nspcc-dev/neo-go/pkg/neotest"
	"github.com/nspcc-dev/neo-go/pkg/smartcontract"
	"github.com/nspcc-dev/neo-go/pkg/smartcontract/manifest"
	"github.com/nspcc-dev/neo-go/pkg/util"
	"github.com/nspcc-dev/neo-go/pkg/vm/stackitem"
)

// C06 (tick) and C07 (candidate state machine) share the Netmap world and model.

const subSrc = `package sub

import "github.com/nspcc-dev/neo-go/pkg/interop/runtime"

func NewEpoch(e int) {
	if e == REJECT {
		panic("subscriber rejects this epoch")
	}
	runtime.Notify("Tick", e)
}
`

type cand struct {
	state int // 1 online, 3 maintenance
	ver   int // which blob / address variant was stored last
}

type tickModel struct {
	epoch    int
	legacy   map[int]cand
	v2       map[int]cand
	subs     []string // subscription order; "balance" is there from deployment
	lastBlk  int
	lockLive bool // the lock created during setup (until = 2) has not been released yet
	// what the last tick of this path published (both formats); nil until the path has ticked
	pubSet     bool
	pubL, pubV []string
}

func (m *tickModel) Clone() Model {
	c := &tickModel{epoch: m.epoch, legacy: map[int]cand{}, v2: map[int]cand{}, subs: append([]string{}, m.subs...), lastBlk: m.lastBlk, lockLive: m.lockLive,
		pubSet: m.pubSet, pubL: append([]string{}, m.pubL...), pubV: append([]string{}, m.pubV...)}
	for k, v := range m.legacy {
		c.legacy[k] = v
	}
	for k, v := range m.v2 {
		c.v2[k] = v
	}
	return c
}
func (m *tickModel) Key() []byte { return nil }

type tickOp struct {
	kind   string // addPeer addPeerIR addNode updState updStateIR delNode subscribe newEpoch nextBlock shortBlob
	k      int    // key index; -1 = malformed 32-byte key
	state  int
	ver    int
	sub    string
	de     int    // epoch delta for newEpoch
	mul    int    // or: jump to epoch*mul (mul itself from epoch 0)
	plus32 bool   // or: jump to epoch + 2^32
	signer string // "A" alphabet, "AN" alphabet+node, "N" node only, "S" stranger, "AO" alphabet + the other node
}

// tickCanon moves netmap.NewEpoch events to the end and sorts each run of consecutive events of one contract.
func tickCanon(in []Notif) []string {
	// Balance's TransferX carries a details field whose encoding is Balance's business (C09): from, to, amount count here
	l := make([]Notif, len(in))
	for i, nf := range in {
		l[i] = nf
		if nf.Contract == "balance" && nf.Name == "TransferX" && len(nf.Args) == 4 {
			l[i].Args = nf.Args[:3]
		}
	}
	var out, own []string
	for i := 0; i < len(l); {
		if l[i].Contract == "netmap" && l[i].Name == "NewEpoch" {
			own = append(own, fmt.Sprint(l[i]))
			i++
			continue
		}
		j := i
		var run []string
		for j < len(l) && l[j].Contract == l[i].Contract && !(l[j].Contract == "netmap" && l[j].Name == "NewEpoch") {
			run = append(run, fmt.Sprint(l[j]))
			j++
		}
		sort.Strings(run)
		out = append(out, run...)
		i = j
	}
	return append(out, own...)
}

func (o tickOp) target(epoch int) int {
	if o.plus32 {
		return epoch + 1<<32
	}
	if o.mul > 0 {
		return max(epoch, 1) * o.mul
	}
	return epoch + o.de
}

type TickDriver struct {
	Mode  string
	ops   []tickOp
	nodes []*Account
	bad   []byte
}

func NewTickDriver(mode string) *TickDriver {
	d := &TickDriver{Mode: mode}
	d.bad = make([]byte, 32)
	add := func(o ...tickOp) { d.ops = append(d.ops, o...) }
	switch mode {
	case "C07":
		for k := 0; k < 2; k++ {
			for _, sg := range []string{"AN", "A", "N", "AO", "S", "MN"} {
				add(tickOp{kind: "addPeer", k: k, signer: sg}, tickOp{kind: "addNode", k: k, signer: sg})
				for _, st := range []int{0, 1, 2, 3, 4} {
					if sg != "AN" && (st == 0 || st == 4) {
						continue
					}
					add(tickOp{kind: "updState", k: k, state: st, signer: sg})
				}
			}
			add(tickOp{kind: "addPeer", k: k, ver: 1, signer: "AN"}, tickOp{kind: "addNode", k: k, ver: 1, signer: "AN"})
			add(tickOp{kind: "addPeerIR", k: k, signer: "A"}, tickOp{kind: "addPeerIR", k: k, ver: 1, signer: "A"}, tickOp{kind: "addPeerIR", k: k, signer: "S"}, tickOp{kind: "addPeerIR", k: k, signer: "N"})
			for _, st := range []int{0, 1, 2, 3, 4} {
				add(tickOp{kind: "updStateIR", k: k, state: st, signer: "A"})
			}
			add(tickOp{kind: "updStateIR", k: k, state: 3, signer: "M"}, tickOp{kind: "addPeerIR", k: k, signer: "M"}, tickOp{kind: "delNode", k: k, signer: "M"},
				tickOp{kind: "updStateIR", k: k, state: 3, signer: "S"}, tickOp{kind: "updStateIR", k: k, state: 2, signer: "N"},
				tickOp{kind: "delNode", k: k, signer: "A"}, tickOp{kind: "delNode", k: k, signer: "S"}, tickOp{kind: "delNode", k: k, signer: "N"})
		}
		add(tickOp{kind: "delNode", k: -1, signer: "A"}, tickOp{kind: "updStateIR", k: -1, state: 1, signer: "A"}, tickOp{kind: "updStateIR", k: -1, state: 3, signer: "A"},
			tickOp{kind: "updState", k: -1, state: 1, signer: "A"}, tickOp{kind: "addNode", k: -1, signer: "A"}, tickOp{kind: "shortBlob", signer: "A"},
			tickOp{kind: "addNodeOffline", k: 0, signer: "AN"},
			// the network setting that names the Maintenance state, switched off and on
			tickOp{kind: "setCfg", sub: "MaintenanceModeAllowed", state: 0, signer: "A"}, tickOp{kind: "setCfg", sub: "MaintenanceModeAllowed", state: 1, signer: "A"},
			// a candidate announced with any state but Online: Offline, the unnamed zero, a number outside the enumeration, a negative one
			tickOp{kind: "addNodeSt", k: 0, state: 2, signer: "AN"}, tickOp{kind: "addNodeSt", k: 0, state: 0, signer: "AN"},
			tickOp{kind: "addNodeSt", k: 0, state: 42, signer: "AN"}, tickOp{kind: "addNodeSt", k: 0, state: -1, signer: "AN"})
	case "C06":
		for k := 0; k < 2; k++ {
			add(tickOp{kind: "addPeerIR", k: k, signer: "A"}, tickOp{kind: "addNode", k: k, signer: "AN"},
				tickOp{kind: "updStateIR", k: k, state: 3, signer: "A"}, tickOp{kind: "updStateIR", k: k, state: 2, signer: "A"})
		}
		add(tickOp{kind: "addPeerIR", k: 0, ver: 1, signer: "A"}, tickOp{kind: "addNode", k: 0, ver: 1, signer: "AN"})
		for _, s := range []string{"p1", "p2"} {
			add(tickOp{kind: "subscribe", sub: s, signer: "A"}, tickOp{kind: "subscribe", sub: s, signer: "S"})
		}
		add(tickOp{kind: "subscribe", sub: "nns", signer: "A"}) // has no newEpoch method
		for _, de := range []int{-1, 0, 1, 2, 3} {
			add(tickOp{kind: "newEpoch", de: de, signer: "A"})
		}
		// a jump to 256 times the epoch: the numbers whose byte encodings are shifts of one another
		add(tickOp{kind: "newEpoch", mul: 256, signer: "A"})
		// and past the four bytes the per-epoch lists are keyed with
		add(tickOp{kind: "newEpoch", plus32: true, signer: "A"})
		add(tickOp{kind: "newEpoch", de: 1, signer: "S"}, tickOp{kind: "newEpoch", de: 1, signer: "N"}, tickOp{kind: "nextBlock"})
	case "C06hist":
		// the longest history the contract keeps (256 maps), set before the search starts: the clean-up of per-epoch
		// lists that leave the history then works on epochs 128..255 steps behind, whose encodings need care
		add(tickOp{kind: "addNode", k: 0, signer: "AN"}, tickOp{kind: "addPeerIR", k: 0, signer: "A"}, tickOp{kind: "addNode", k: 1, signer: "AN"},
			tickOp{kind: "updStateIR", k: 0, state: 2, signer: "A"}, tickOp{kind: "updStateIR", k: 0, state: 3, signer: "A"})
		for _, de := range []int{1, 2, 126, 127, 128, 255} {
			add(tickOp{kind: "newEpoch", de: de, signer: "A"})
		}
		add(tickOp{kind: "newEpoch", mul: 256, signer: "A"})
	case "C06ring":
		// the shortest history (two maps): every second tick lands on a ring slot that holds an older map, also
		// when the candidate set has become empty in between
		add(tickOp{kind: "addPeerIR", k: 0, signer: "A"}, tickOp{kind: "addPeerIR", k: 1, signer: "A"}, tickOp{kind: "addNode", k: 0, signer: "AN"},
			tickOp{kind: "updStateIR", k: 0, state: 2, signer: "A"}, tickOp{kind: "updStateIR", k: 1, state: 2, signer: "A"}, tickOp{kind: "updStateIR", k: 0, state: 3, signer: "A"},
			tickOp{kind: "newEpoch", de: 1, signer: "A"}, tickOp{kind: "newEpoch", de: 2, signer: "A"})
	case "C06bare":
		// a 3-key committee (majority account != Alphabet account) and no system subscriber, so
		// that nothing but Netmap's own check stands between a weaker witness and the tick
		add(tickOp{kind: "addPeerIR", k: 0, signer: "A"}, tickOp{kind: "addPeerIR", k: 0, signer: "M"},
			tickOp{kind: "subscribe", sub: "p1", signer: "A"}, tickOp{kind: "subscribe", sub: "p1", signer: "M"},
			tickOp{kind: "subscribe", sub: "p2", signer: "A"}, tickOp{kind: "subscribe", sub: "p1", signer: "A"})
		for _, sg := range []string{"A", "M", "S", "N", "M1"} {
			add(tickOp{kind: "newEpoch", de: 1, signer: sg})
		}
		add(tickOp{kind: "newEpoch", de: 0, signer: "A"}, tickOp{kind: "newEpoch", de: 2, signer: "A"})
	default:
		hpanic("TickDriver: unknown mode %s", mode)
	}
	return d
}

func (d *TickDriver) Build() *World {
	n := 1
	if d.Mode == "C06bare" || d.Mode == "C07" {
		n = 3 // the committee-majority account differs from the Alphabet account
	}
	w := NewWorld(n)
	w.Deploy("nns", CompileDir(Repo, "nns"), []any{[]any{[]any{"neofs", "ops@x.y"}}})
	dn := w.Deploy("netmap", CompileDir(Repo, "netmap"), []any{false, util.Uint160{}, util.Uint160{}, []any{}, []any{}})
	w.RegisterNNS("netmap", dn.Hash)
	var bal *Deployed
	if d.Mode != "C06bare" {
		bal = w.Deploy("balance", CompileDir(Repo, "balance"), []any{false, util.Uint160{}, util.Uint160{}})
	}
	for _, p := range [][2]string{{"p1", "-1000"}, {"p2", "3"}} {
		c := CompileSource("sub"+p[0], strings.ReplaceAll(subSrc, "REJECT", p[1]), &compiler.Options{Name: p[0], NoEventsCheck: true, NoPermissionsCheck: true,
			ContractEvents: []compiler.HybridEvent{{Name: "Tick", Parameters: []compiler.HybridParameter{{Parameter: manifest.Parameter{Name: "e", Type: smartcontract.IntegerType}}}}},
			Permissions:    WildPermissions()})
		w.Deploy(p[0], c, nil)
	}
	d.nodes = nil
	for i := 0; i < 2; i++ {
		d.nodes = append(d.nodes, w.Acct(fmt.Sprintf("node%d", i)))
	}
	w.Acct("S")
	if d.Mode == "C06" {
		// a lock that expires at epoch 2 makes the Balance subscriber's work observable
		a := w.Acct("A").Hash
		l := util.Uint160{0xf1, 0xf1}
		w.Invoke(bal.Hash, []neotest.Signer{w.AlphaS}, "mint", a, int64(10), []byte("d"))
		w.Invoke(bal.Hash, []neotest.Signer{w.AlphaS}, "lock", []byte("t"), a, l, int64(3), int64(2))
	}
	if d.Mode == "C06hist" {
		w.Invoke(dn.Hash, []neotest.Signer{w.AlphaS}, "updateSnapshotCount", int64(256))
	}
	if d.Mode == "C06ring" {
		w.Invoke(dn.Hash, []neotest.Signer{w.AlphaS}, "updateSnapshotCount", int64(2))
	}
	w.Freeze()
	return w
}

func (d *TickDriver) Init(w *World) Model {
	subs := []string{"balance"}
	if d.Mode == "C06bare" {
		subs = nil
	}
	return &tickModel{legacy: map[int]cand{}, v2: map[int]cand{}, subs: subs, lockLive: d.Mode == "C06"}
}
func (d *TickDriver) NumOps() int { return len(d.ops) }
func (d *TickDriver) OpName(n *Node, i int) string {
	o := d.ops[i]
	m := n.M.(*tickModel)
	switch o.kind {
	case "newEpoch":
		return fmt.Sprintf("newEpoch(%d) by %s", o.target(m.epoch), o.signer)
	case "setCfg":
		return fmt.Sprintf("setConfig(%s, %d) by %s", o.sub, o.state, o.signer)
	case "subscribe":
		return fmt.Sprintf("subscribeForNewEpoch(%s) by %s", o.sub, o.signer)
	case "nextBlock":
		return "next block"
	case "shortBlob":
		return "addPeerIR(10-byte blob) by A"
	case "addNodeSt":
		return fmt.Sprintf("addNode(K%d,state=%d) by %s", o.k, o.state, o.signer)
	case "addPeer", "addPeerIR", "addNode", "addNodeOffline":
		return fmt.Sprintf("%s(K%d,v%d) by %s", o.kind, o.k, o.ver, o.signer)
	case "delNode":
		return fmt.Sprintf("deleteNode(K%d) by %s", o.k, o.signer)
	}
	return fmt.Sprintf("%s(K%d,state=%d) by %s", o.kind, o.k, o.state, o.signer)
}
func (d *TickDriver) Enabled(*Node, int) bool { return true }

func (d *TickDriver) key(k int) []byte {
	if k < 0 {
		return d.bad
	}
	return d.nodes[k].Pub()
}

func (d *TickDriver) blob(k, ver int) []byte {
	b := append([]byte{0, 0}, d.key(k)...)
	return append(b, 0xAB, byte(k), byte(ver))
}

func (d *TickDriver) addr(ver int) string { return fmt.Sprintf("addr%d", ver) }

func (d *TickDriver) Step(x *Exec, n *Node, i int) StepResult {
	w := x.W
	m := n.M.(*tickModel)
	nm := m.Clone().(*tickModel)
	o := d.ops[i]
	h := w.Contracts["netmap"].Hash
	where := map[string]any{"op": o.kind, "signer": o.signer}
	viol := func(class, msg string) StepResult {
		return StepResult{V: Viol(class, msg, where), Outcome: "violation"}
	}
	if o.kind == "nextBlock" {
		return StepResult{Next: &Node{L: n.L, H: n.H + 1, TS: n.TS + 1000, M: m}, Outcome: "CLOCK"}
	}
	ki := o.k
	if ki < 0 {
		ki = 0
	}
	var signers []util.Uint160
	alpha, node := false, false
	switch o.signer {
	case "A":
		signers, alpha = []util.Uint160{w.Alpha}, true
	case "AN":
		signers, alpha, node = []util.Uint160{w.Alpha, d.nodes[ki].Hash}, true, true
	case "AO":
		signers, alpha = []util.Uint160{w.Alpha, d.nodes[1-ki].Hash}, true
	case "N":
		signers, node = []util.Uint160{d.nodes[ki].Hash}, true
	case "S":
		signers = []util.Uint160{w.Acct("S").Hash}
	case "M":
		signers = []util.Uint160{w.Comm} // committee majority: not the Alphabet on a 3-key committee
	case "MN":
		signers, node = []util.Uint160{w.Comm, d.nodes[ki].Hash}, true
	case "M1":
		signers = []util.Uint160{w.Members[0].Hash}
	}
	expHalt := true
	unspecified := false // the statement is silent: outcome not compared, but nothing may change
	var expN []Notif
	var scr []byte
	key := d.key(o.k)
	kx := NX(key)
	applyState := func(st int) {
		_, a := m.legacy[o.k]
		_, b := m.v2[o.k]
		switch st {
		case 2: // offline: remove from both
			if !a && !b {
				unspecified = true
				return
			}
			delete(nm.legacy, o.k)
			delete(nm.v2, o.k)
			expN = []Notif{{"netmap", "UpdateStateSuccess", []any{kx, "i2"}}}
		case 1, 3:
			if !a && !b {
				expHalt = false
				return
			}
			if a {
				c := nm.legacy[o.k]
				c.state = st
				nm.legacy[o.k] = c
			}
			if b {
				c := nm.v2[o.k]
				c.state = st
				nm.v2[o.k] = c
			}
			expN = []Notif{{"netmap", "UpdateStateSuccess", []any{kx, NI(int64(st))}}}
		default:
			expHalt = false
		}
	}
	switch o.kind {
	case "addPeer":
		scr = Script(h, "addPeer", d.blob(o.k, o.ver))
		if !(alpha && node) {
			expHalt = false
		} else {
			nm.legacy[o.k] = cand{1, o.ver}
			expN = []Notif{{"netmap", "AddPeerSuccess", []any{kx}}}
		}
	case "addPeerIR":
		scr = Script(h, "addPeerIR", d.blob(o.k, o.ver))
		if !alpha {
			expHalt = false
		} else {
			nm.legacy[o.k] = cand{1, o.ver}
			expN = []Notif{{"netmap", "AddPeerSuccess", []any{kx}}}
		}
	case "shortBlob":
		scr = Script(h, "addPeerIR", make([]byte, 10))
		expHalt = false
	case "addNode", "addNodeOffline", "addNodeSt":
		st := int64(1)
		if o.kind == "addNodeOffline" {
			st = 3
		}
		if o.kind == "addNodeSt" {
			st = int64(o.state)
		}
		scr = Script(h, "addNode", []any{[]any{d.addr(o.ver)}, stackitem.NewMap(), key, st})
		if !(alpha && node) || o.k < 0 || st != 1 {
			expHalt = false
		} else {
			nm.v2[o.k] = cand{1, o.ver}
			expN = []Notif{{"netmap", "AddNode", []any{kx, []any{NXs(d.addr(o.ver))}, []any{"map"}}}}
		}
	case "updState":
		scr = Script(h, "updateState", int64(o.state), key)
		if !(alpha && node) || o.k < 0 {
			expHalt = false
		} else {
			applyState(o.state)
		}
	case "updStateIR":
		scr = Script(h, "updateStateIR", int64(o.state), key)
		if !alpha {
			expHalt = false
		} else {
			applyState(o.state)
		}
	case "delNode":
		scr = Script(h, "deleteNode", key)
		if !alpha || o.k < 0 {
			expHalt = false
		} else {
			applyState(2)
		}
	case "setCfg":
		// a network setting: the candidate state machine of the statement does not depend on any
		scr = Script(h, "setConfig", []byte{byte(o.state)}, []byte(o.sub), []byte{byte(o.state)})
		if !alpha {
			expHalt = false
		}
	case "subscribe":
		scr = Script(h, "subscribeForNewEpoch", w.Contracts[o.sub].Hash)
		if !alpha || o.sub == "nns" {
			expHalt = false
		} else if !contains(m.subs, o.sub) {
			nm.subs = append(nm.subs, o.sub)
			expN = []Notif{{"netmap", "NewEpochSubscription", []any{NX(w.Contracts[o.sub].Hash.BytesBE())}}}
		}
	case "newEpoch":
		e := o.target(m.epoch)
		scr = Script(h, "newEpoch", int64(e))
		rejected := contains(m.subs, "p2") && e == 3
		if !alpha || e <= m.epoch || rejected {
			expHalt = false
		} else {
			nm.epoch = e
			nm.lastBlk = int(n.H) - 1
			for _, s := range m.subs {
				if s == "balance" {
					if m.lockLive && e >= 2 {
						nm.lockLive = false
						a := w.Acct("A").Hash.BytesBE()
						l := util.Uint160{0xf1, 0xf1}.BytesBE()
						eb, _ := stackitem.Make(e).TryBytes()
						expN = append(expN, Notif{"balance", "Transfer", []any{NX(l), NX(a), "i3"}},
							Notif{"balance", "TransferX", []any{NX(l), NX(a), "i3", NX(append([]byte{4}, eb...))}})
					}
					continue
				}
				expN = append(expN, Notif{s, "Tick", []any{NI(int64(e))}})
			}
			expN = append(expN, Notif{"netmap", "NewEpoch", []any{NI(int64(e))}})
		}
	}
	obs, nn := x.Do(n, Call{Script: scr, Signers: signers, Label: d.OpName(n, i)})
	diff := DiffDumps(w.FullDump(n.L), w.FullDump(nn.L))
	changed := len(diff) > 0
	if unspecified {
		if changed {
			return viol("unspecified-but-changed", fmt.Sprintf("an update of an unknown candidate changed state: %v", diff))
		}
		nn.M = m
		out := "FAULT"
		var soft []*Violation
		if obs.Halt {
			out = "HALT:noop"
			// "updating an unknown candidate ... fails without effect": storage stays, but a success event is an effect
			// exactly the event of the finding (one UpdateStateSuccess(K, Offline)); any other event is no part of it
			if d.Mode == "C07" && len(obs.Notifs) > 0 && !(len(obs.Notifs) == 1 && obs.Notifs[0].Contract == "netmap" && obs.Notifs[0].Name == "UpdateStateSuccess" && len(obs.Notifs[0].Args) == 2 && Same(obs.Notifs[0].Args[1], "i2")) {
				return viol("unspecified-but-notified", fmt.Sprintf("%s on a key in neither list announces %v", d.OpName(n, i), obs.Notifs))
			}
			if len(obs.Notifs) > 0 && d.Mode == "C07" {
				soft = append(soft, Viol("unknown-candidate-update-succeeds", fmt.Sprintf("%s on a key in neither list halts and announces %v", d.OpName(n, i), obs.Notifs), map[string]any{"op": o.kind, "state": "offline", "candidate": "unknown"}))
			}
		}
		return StepResult{Next: nn, Outcome: out, Soft: soft}
	}
	if obs.Halt != expHalt {
		return viol("outcome", fmt.Sprintf("model expects halt=%v, contract halt=%v fault=%q", expHalt, obs.Halt, obs.Fault))
	}
	if !obs.Halt {
		if changed {
			return viol("refused-but-changed", fmt.Sprint(diff))
		}
		nn.M = m
		return StepResult{Next: nn, Outcome: "FAULT"}
	}
	// the subscribers' effects must come in subscription order; where Netmap's own NewEpoch event sits among
	// them, and the order inside one subscriber's burst, is not part of the statement
	if fmt.Sprint(tickCanon(obs.Notifs)) != fmt.Sprint(tickCanon(expN)) {
		return viol("notifications", fmt.Sprintf("got %v want %v", obs.Notifs, expN))
	}
	if len(expN) == 0 && changed && o.kind != "setCfg" {
		return viol("noop-but-changed", fmt.Sprintf("a call the model treats as a no-op changed state: %v", diff))
	}
	// ---- read back ----
	rd := func(method string, args ...any) Obs { return w.Read(nn.L, nn.H, nn.TS, h, method, args...) }
	set := func(o Obs) []string {
		var r []string
		if l, ok := o.Ret0().([]any); ok {
			for _, e := range l {
				r = append(r, fmt.Sprint(e))
			}
		}
		sort.Strings(r)
		return r
	}
	var wantL, wantV []string
	for k, c := range nm.legacy {
		wantL = append(wantL, fmt.Sprint([]any{NX(d.blob(k, c.ver)), NI(int64(c.state))}))
	}
	for k, c := range nm.v2 {
		wantV = append(wantV, fmt.Sprint([]any{[]any{NXs(d.addr(c.ver))}, []any{"map"}, NX(d.key(k)), NI(int64(c.state))}))
	}
	sort.Strings(wantL)
	sort.Strings(wantV)
	if g := set(rd("netmapCandidates")); fmt.Sprint(g) != fmt.Sprint(wantL) {
		return viol("legacy-candidates", fmt.Sprintf("netmapCandidates=%v model %v", g, wantL))
	}
	if g := set(rd("listCandidates")); fmt.Sprint(g) != fmt.Sprint(wantV) {
		return viol("v2-candidates", fmt.Sprintf("listCandidates=%v model %v", g, wantV))
	}
	if ep := rd("epoch"); !Same(ep.Ret0(), NI(int64(nm.epoch))) {
		return viol("epoch", fmt.Sprintf("epoch=%v model %d", ep.Stack, nm.epoch))
	}
	if o.kind == "newEpoch" {
		// publication: both formats equal the candidate set at the moment of the tick
		if g := set(rd("netmap")); fmt.Sprint(g) != fmt.Sprint(wantL) {
			return viol("published-legacy", fmt.Sprintf("netmap()=%v candidates %v", g, wantL))
		}
		if g := set(rd("snapshot", int64(0))); fmt.Sprint(g) != fmt.Sprint(wantL) {
			return viol("published-legacy", fmt.Sprintf("snapshot(0)=%v candidates %v", g, wantL))
		}
		// the known finding explains exactly one surplus: the nodes that were stored under epoch mod 2^32 before
		// this tick; any other mismatch beyond 32 bits is a violation like everywhere else
		explain := func(g []string) {
			if nm.epoch < 1<<32 {
				return
			}
			// entries are stored per (truncated epoch, node key): a current candidate overwrites its own stale entry,
			// the stale entries of nodes that are no candidates any more stay
			cur := map[string]bool{}
			for k := range nm.v2 {
				cur[fmt.Sprint(NX(d.key(k)))] = true
			}
			ul := append([]string{}, wantV...)
			stale := w.Read(n.L, n.H, n.TS, h, "listNodes", int64(nm.epoch%(1<<32)))
			if l, ok := stale.Ret0().([]any); ok {
				for _, e := range l {
					if f, ok := e.([]any); ok && len(f) == 4 && !cur[fmt.Sprint(f[2])] {
						ul = append(ul, fmt.Sprint(e))
					}
				}
			}
			sort.Strings(ul)
			if fmt.Sprint(g) == fmt.Sprint(ul) {
				where["epoch_beyond_32_bits"] = true
			}
		}
		if g := set(rd("listNodes", int64(nm.epoch))); fmt.Sprint(g) != fmt.Sprint(wantV) {
			explain(g)
			return viol("published-v2", fmt.Sprintf("listNodes(%d)=%v candidates %v", nm.epoch, g, wantV))
		}
		if g := set(rd("listNodes")); fmt.Sprint(g) != fmt.Sprint(wantV) {
			explain(g)
			return viol("published-v2", fmt.Sprintf("listNodes()=%v candidates %v", g, wantV))
		}
		nm.pubSet, nm.pubL, nm.pubV = true, wantL, wantV
	} else if nm.pubSet {
		// between ticks the published map stays what the last tick published, whatever happens to the candidates
		if g := set(rd("netmap")); fmt.Sprint(g) != fmt.Sprint(nm.pubL) {
			return viol("published-map-moved", fmt.Sprintf("netmap()=%v, the last tick published %v", g, nm.pubL))
		}
		if g := set(rd("snapshot", int64(0))); fmt.Sprint(g) != fmt.Sprint(nm.pubL) {
			return viol("published-map-moved", fmt.Sprintf("snapshot(0)=%v, the last tick published %v", g, nm.pubL))
		}
		if g := set(rd("listNodes")); fmt.Sprint(g) != fmt.Sprint(nm.pubV) {
			return viol("published-map-moved", fmt.Sprintf("listNodes()=%v, the last tick published %v", g, nm.pubV))
		}
	}
	if d.Mode == "C06" || d.Mode == "C06bare" {
		if lb := rd("lastEpochBlock"); !Same(lb.Ret0(), NI(int64(nm.lastBlk))) {
			return viol("tick-height", fmt.Sprintf("lastEpochBlock=%v want %d", lb.Stack, nm.lastBlk))
		}
		// the raw subscriber list is the model's, in order
		var subs []string
		for _, kv := range w.Dump(nn.L, "netmap") {
			if len(kv.K) == 22 && kv.K[0] == 'e' {
				subs = append(subs, w.NameOf(U160(kv.K[2:])))
			}
		}
		if fmt.Sprint(subs) != fmt.Sprint(nm.subs) {
			return viol("subscribers", fmt.Sprintf("stored subscribers %v model %v", subs, nm.subs))
		}
	}
	nn.M = nm
	return StepResult{Next: nn, Outcome: "HALT", Changed: changed}
}
