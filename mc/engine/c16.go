package engine

import (
	"crypto/sha256"
	"encoding/hex"
	"fmt"
	repocommon "github.com/nspcc-dev/neofs-contract/common"
	"os"
	"path/filepath"
	"regexp"
	"sort"
	"strconv"
	"strings"

	"github.com/nspcc-dev/neo-go/pkg/compiler"
	"github.com/nspcc-dev/neo-go/pkg/core/native/nativenames"
	"github.com/nspcc-dev/neo-go/pkg/crypto/hash"
	"github.com/nspcc-dev/neo-go/pkg/util"
	"github.com/nspcc-dev/neo-go/pkg/vm/stackitem"
)

// C16: upgrade is committee-gated, version-monotonic, data-preserving.
//
//   - window+migrations: an old-version stub (same manifest name as the target) holds a
//     synthetic legacy storage and calls management.update(nef, manifest, [.., v]) so that
//     the tree's _deploy(data, true) runs on it; versions around both bounds x legacy layouts.
//   - gate: every contract deployed from the tree is updated, under every signer set, to a
//     build of the same tree whose version constant is bumped by one patch level.

const stubSrc = `package stub

import (
	"github.com/nspcc-dev/neo-go/pkg/interop"
	"github.com/nspcc-dev/neo-go/pkg/interop/contract"
	"github.com/nspcc-dev/neo-go/pkg/interop/native/management"
	"github.com/nspcc-dev/neo-go/pkg/interop/storage"
)

func _deploy(data any, isUpdate bool) {}

func Put(k, v []byte) { storage.Put(storage.GetContext(), k, v) }

func Update(script []byte, manifest []byte, data any) {
	contract.Call(interop.Hash160(management.Hash), "update", contract.All, script, manifest, data)
}
`

var c16Targets = []string{"alphabet", "audit", "balance", "container", "neofs", "neofsid", "netmap", "nns", "processing", "proxy", "reputation"}

type upCase struct {
	Contract string
	V        int64
	Variant  string
}

type UpGrid struct {
	prev, cur int64
	fake      [2]util.Uint160
	only      string // if set: the cases of this contract only
}

func NewUpGrid() *UpGrid       { return &UpGrid{} }
func (d *UpGrid) Name() string { return "upgrade-window" }
func (d *UpGrid) Rule() string {
	return "11 contracts x versions {prev-1, prev, prev+1, 15999, 16000, 16999, 17000, 17999, 18000, 18999, 19000, 19999, cur-1, cur, cur+1} x legacy storage variants (un-prefixed/prefixed/mixed balance accounts and container keys, old-format netmap snapshots/candidates with ring sizes 10 and 12, stored subscriber hashes, owned TLDs, notary flag absent/false/true x ballots absent/empty/stale/fresh); non-trivial = version inside the window; distinct by case"
}

func repoVersions() (prev, cur int64) {
	b, err := os.ReadFile(filepath.Join(Repo, "common", "version.go"))
	if err != nil {
		hpanic("common/version.go: %v", err)
	}
	get := func(name string) int64 {
		m := regexp.MustCompile(`(?m)^\s*` + name + `\s*=\s*(\d+)`).FindStringSubmatch(string(b))
		if m == nil {
			hpanic("common/version.go: constant %s not found", name)
		}
		v, _ := strconv.ParseInt(m[1], 10, 64)
		return v
	}
	return get("prevMajor")*1_000_000 + get("prevMinor")*1_000 + get("prevPatch"), get("major")*1_000_000 + get("minor")*1_000 + get("patch")
}

func stubFor(target string) *Compiled {
	name := CompileDir(Repo, target).Manifest.Name
	return CompileSource("stub-"+target, stubSrc, &compiler.Options{Name: name, NoEventsCheck: true, NoPermissionsCheck: true, Permissions: WildPermissions()})
}

func (d *UpGrid) Build() *World {
	d.prev, d.cur = repoVersions()
	w := NewWorld(1)
	w.NoScriptOverride = true // the deployed executables are old-version stubs; an override applies to the update's target
	for _, t := range c16Targets {
		w.Deploy(t, stubFor(t), nil)
	}
	w.Acct("S")
	// blocks, so that a ballot of height 0 is stale
	for i := 0; i < 25; i++ {
		b := w.E.NewUnsignedBlock(w.T)
		w.E.SignBlock(b)
		if err := w.BC.AddBlock(b); err != nil {
			hpanic("filler: %v", err)
		}
	}
	d.fake = [2]util.Uint160{{0xba, 0x1a}, {0xc0, 0x17}}
	w.Freeze()
	return w
}

func (d *UpGrid) versions() []int64 {
	d.prev, d.cur = repoVersions()
	set := map[int64]bool{}
	for _, v := range []int64{d.prev - 1, d.prev, d.prev + 1, 15999, 16000, 16999, 17000, 17999, 18000, 18999, 19000, 19999, d.cur - 1, d.cur, d.cur + 1} {
		if v >= 0 {
			set[v] = true
		}
	}
	var out []int64
	for v := range set {
		out = append(out, v)
	}
	sort.Slice(out, func(i, j int) bool { return out[i] < out[j] })
	return out
}

func (d *UpGrid) Cases(tier string) []GridCase {
	var out []GridCase
	flags := []string{"notary=absent", "notary=false", "notary=true/ballots=absent", "notary=true/ballots=empty", "notary=true/ballots=stale", "notary=true/ballots=fresh", "notary=false/ballots=fresh",
		// several ballots, the live one not last / not first (votes refresh a ballot in place, so list order is not age order)
		"notary=true/ballots=fresh-then-stale", "notary=true/ballots=stale-fresh-stale",
		// the 20-block boundary of "pending": a ballot exactly 20 blocks old still counts, one of 21 does not
		"notary=true/ballots=age20", "notary=true/ballots=age21"}
	data := map[string][]string{
		"balance":   {"unprefixed", "prefixed", "mixed", "empty", "unprefixed-every-first-byte"},
		"container": {"unprefixed", "prefixed", "mixed", "unprefixed-every-first-byte"},
		"netmap":    {"ring10", "ring12", "ring3", "ring6-gap"},
		"nns":       {"names", "names-two-tlds"},
	}
	for _, c := range c16Targets {
		if d.only != "" && c != d.only {
			continue
		}
		dv := data[c]
		if dv == nil {
			dv = []string{"data"}
		}
		for _, v := range d.versions() {
			for i, dvar := range dv {
				for j, f := range flags {
					// the full product flags x data variants, except that legacy flags mean nothing from 0.17.0 on
					// (nothing is stored for them): there only the first flag is kept
					if v >= 17000 && j > 0 {
						continue
					}
					_ = i
					if c == "alphabet" && strings.HasPrefix(f, "notary=true") {
						continue // switching an Alphabet contract with notary=true redistributes GAS through Netmap/Proxy: out of this grid
					}
					out = append(out, GridCase{Name: fmt.Sprintf("%s from %d storage=%s %s", c, v, dvar, f), Data: upCase{c, v, dvar + " " + f}})
					if i == 0 && j == 0 && c != "alphabet" {
						// the caller's own data in front of the version the old code appends: an integer that would pass
						// the gate where the deployed version does not, and the other way round
						out = append(out, GridCase{Name: fmt.Sprintf("%s from %d storage=%s %s data=decoy", c, v, dvar, f), Data: upCase{c, v, dvar + " " + f + " data=decoy"}})
					}
				}
			}
		}
	}
	return out
}

func ser(it stackitem.Item) []byte {
	b, err := stackitem.Serialize(it)
	if err != nil {
		panic(err)
	}
	return b
}

type kvPut struct{ k, v []byte }

func (d *UpGrid) Eval(x *Exec, root *Node, gc GridCase) GridResult {
	w := x.W
	c := gc.Data.(upCase)
	h := w.Contracts[c.Contract].Hash
	where := map[string]any{"contract": c.Contract, "from": c.V}
	var vs []*Violation
	fail := func(class, msg string) {
		vs = append(vs, Viol(class, fmt.Sprintf("%s: %s", gc.Name, msg), where))
	}
	cur := root
	do := func(label string, scr []byte, signers ...util.Uint160) Obs {
		o, nn := x.Do(cur, Call{Script: scr, Signers: signers, Label: label})
		cur = nn
		return o
	}
	// ---- legacy storage ----
	var puts []kvPut
	put := func(k, v []byte) { puts = append(puts, kvPut{k, v}) }
	hasFlag := strings.Contains(c.Variant, "notary=false") || strings.Contains(c.Variant, "notary=true")
	notaryTrue := strings.Contains(c.Variant, "notary=true")
	fresh := strings.Contains(c.Variant, "ballots=") && (strings.Contains(c.Variant[strings.Index(c.Variant, "ballots="):], "fresh") || strings.Contains(c.Variant, "ballots=age20"))
	// flags exist in storages written by versions before 0.17.0 only
	legacyFlags := c.V < 17000
	if legacyFlags && hasFlag {
		if notaryTrue {
			put([]byte("notary"), []byte{1})
		} else {
			put([]byte("notary"), []byte{0})
		}
		mkBallots := func(height int64) []byte {
			return ser(stackitem.NewArray([]stackitem.Item{stackitem.NewStruct([]stackitem.Item{stackitem.Make([]byte("id")), stackitem.Make([]any{[]byte{2, 3}}), stackitem.Make(height)})}))
		}
		switch {
		case !votingContracts()[c.Contract]:
			// this contract never collected votes: no ballots in its storage
		case strings.Contains(c.Variant, "ballots=fresh-then-stale"), strings.Contains(c.Variant, "ballots=stale-fresh-stale"):
			one := func(id string, height int64) stackitem.Item {
				return stackitem.NewStruct([]stackitem.Item{stackitem.Make([]byte(id)), stackitem.Make([]any{[]byte{2, 3}}), stackitem.Make(height)})
			}
			l := []stackitem.Item{one("idA", int64(root.H)-1), one("idB", 0)}
			if strings.Contains(c.Variant, "stale-fresh-stale") {
				l = []stackitem.Item{one("idC", 0), one("idA", int64(root.H)-1), one("idB", 0)}
			}
			put([]byte("ballots"), ser(stackitem.NewArray(l)))
		case strings.Contains(c.Variant, "ballots=empty"):
			put([]byte("ballots"), ser(stackitem.NewArray(nil)))
		case strings.Contains(c.Variant, "ballots=stale"):
			put([]byte("ballots"), mkBallots(0))
		case strings.Contains(c.Variant, "ballots=age20"):
			put([]byte("ballots"), mkBallots(int64(root.H)-1-20))
		case strings.Contains(c.Variant, "ballots=age21"):
			put([]byte("ballots"), mkBallots(int64(root.H)-1-21))
		case fresh:
			put([]byte("ballots"), mkBallots(int64(root.H)-1))
		}
	}
	expect := d.legacy(w, c, put)
	for i, p := range puts {
		if o := do(fmt.Sprintf("stub.put #%d", i), Script(h, "put", p.k, p.v)); !o.Halt {
			hpanic("C16 stub.put: %s", o.Fault)
		}
	}
	before := cur
	nb, mb := updateTarget(c.Contract).Bytes()
	data := d.updateData(c)
	o := do("update", Script(h, "update", nb, mb, data))
	inWindow := c.V >= d.prev && c.V < d.cur
	switchers := map[string]bool{"audit": true, "balance": true, "container": true, "neofsid": true, "netmap": true, "reputation": true}
	voters := votingContracts()
	pending := legacyFlags && notaryTrue && fresh && voters[c.Contract]
	out := "refused"
	switch {
	case !inWindow:
		if o.Halt {
			fail("version-window", fmt.Sprintf("update from version %d was accepted; supported: %d <= v < %d", c.V, d.prev, d.cur))
		} else if df := DiffDumps(w.FullDump(before.L), w.FullDump(cur.L)); len(df) > 0 {
			fail("refused-but-changed", fmt.Sprint(df))
		} else if !strings.Contains(o.Fault, repocommon.ErrVersionMismatch) && !strings.Contains(o.Fault, repocommon.ErrAlreadyUpdated) {
			fail("version-window", "refused, but not by the version check: "+o.Fault)
		}
	case pending:
		if o.Halt {
			fail("pending-vote-ignored", "update with notary=true and a fresh ballot was accepted (documented: 'pending vote detected')")
		}
		out = "refused-pending-vote"
	default:
		if !o.Halt {
			fail("supported-version-refused", fmt.Sprintf("update from the supported version %d faults: %s", c.V, o.Fault))
			break
		}
		out = "upgraded"
		// ---- everything observable through the read API is preserved ----
		if r := w.Read(cur.L, cur.H, cur.TS, h, "version"); !Same(r.Ret0(), NI(d.cur)) {
			fail("data-not-preserved", fmt.Sprintf("version() = %v after the upgrade", r.Stack))
		}
		for _, e := range expect {
			r := w.Read(cur.L, cur.H, cur.TS, h, e.method, e.args...)
			got := fmt.Sprint(r.Ret0())
			if e.set {
				got = fmt.Sprint(strList(r.Ret0()))
			}
			if !r.Halt || (e.contains == "" && got != e.want) || (e.contains != "" && !strings.Contains(got, e.contains)) {
				where["read"] = e.method
				fail("data-not-preserved", fmt.Sprintf("%s(%s) = %.300s %q; the legacy storage held %.300s%s", e.method, e.note, got, r.Fault, e.want, e.contains))
				break
			}
		}
		if c.Contract == "netmap" {
			// who is told about a new epoch is not readable through the API, but it is what the tick does next: the two
			// subscribers (stored as two named keys before 0.19.0, as an ordered list since) survive, in order
			var subs []string
			for _, kv := range w.Dump(cur.L, c.Contract) {
				if len(kv.K) == 22 && kv.K[0] == 'e' {
					subs = append(subs, fmt.Sprintf("%d:%x", kv.K[1], kv.K[2:]))
				}
			}
			want := []string{fmt.Sprintf("0:%x", d.fake[0].BytesBE()), fmt.Sprintf("1:%x", d.fake[1].BytesBE())}
			if fmt.Sprint(subs) != fmt.Sprint(want) {
				fail("data-not-preserved", fmt.Sprintf("new-epoch subscribers after the upgrade: %v, the legacy storage named %v", subs, want))
			}
		}
		if legacyFlags && hasFlag {
			if si := cur.L.GetStorageItem(w.Contracts[c.Contract].ID, []byte("notary")); si != nil && switchers[c.Contract] {
				fail("data-not-preserved", "the legacy notary flag survived the switch to Notary mode")
			}
		}
	}
	dg := DiffDumps(w.FullDump(before.L), w.FullDump(cur.L))
	sort.Strings(dg)
	sum := sha256.Sum256([]byte(strings.Join(dg, "\n") + "|" + o.Fault))
	return GridResult{Outcome: out, Nontrivial: inWindow, V: vs, Digest: hex.EncodeToString(sum[:8])}
}

func (d *UpGrid) updateData(c upCase) []any {
	switch c.Contract {
	case "alphabet":
		// the Alphabet migration reads its deployment tuple: [notaryDisabled, netmap, proxy, name, index, total]
		return []any{false, d.fake[0], d.fake[1], "az", int64(0), int64(1), c.V}
	}
	if strings.Contains(c.Variant, "data=decoy") {
		decoy := d.cur - 1
		if c.V >= d.prev && c.V < d.cur {
			decoy = d.cur
		}
		return []any{decoy, c.V}
	}
	return []any{c.V}
}

type upExpect struct {
	method   string
	args     []any
	want     string
	contains string
	set      bool
	note     string
}

// legacy fills the storage a contract of version c.V would hold and returns what the new
// read API has to answer after the upgrade.
func (d *UpGrid) legacy(w *World, c upCase, put func(k, v []byte)) []upExpect {
	var ex []upExpect
	a1, a2, l1 := util.Uint160{0xa1, 1}, util.Uint160{0xa2, 2}, util.Uint160{0xf1, 3}
	acct := func(bal, until int64, parent []byte) []byte {
		var p stackitem.Item = stackitem.Null{}
		if parent != nil {
			p = stackitem.Make(parent)
		}
		return ser(stackitem.NewStruct([]stackitem.Item{stackitem.Make(bal), stackitem.Make(until), p}))
	}
	dataVar := strings.Fields(c.Variant)[0]
	switch c.Contract {
	case "balance":
		if dataVar == "empty" {
			put([]byte("MainnetGAS"), leInt(0))
			ex = append(ex, upExpect{method: "totalSupply", want: "i0"}, upExpect{method: "balanceOf", args: []any{a1}, want: "i0", note: "A1"})
			break
		}
		if dataVar == "unprefixed-every-first-byte" {
			// 256 legacy (un-prefixed) accounts, one per value of the address's first byte
			total := int64(0)
			for b := 0; b < 256; b++ {
				a := util.Uint160{byte(b), 0x77}
				put(a.BytesBE(), acct(int64(b)+1, 0, nil))
				total += int64(b) + 1
				ex = append(ex, upExpect{method: "balanceOf", args: []any{a}, want: fmt.Sprintf("i%d", b+1), note: fmt.Sprintf("address starting with %02x", b)})
			}
			put([]byte("MainnetGAS"), leInt(total))
			if c.V < 17000 {
				put([]byte("netmapScriptHash"), d.fake[0].BytesBE())
				put([]byte("containerScriptHash"), d.fake[1].BytesBE())
			}
			ex = append(ex, upExpect{method: "totalSupply", want: fmt.Sprintf("i%d", total)})
			break
		}
		key := func(a util.Uint160, i int) []byte {
			pre := dataVar == "prefixed" || (dataVar == "mixed" && i%2 == 1)
			if pre {
				return append([]byte{'a'}, a.BytesBE()...)
			}
			return a.BytesBE()
		}
		put(key(a1, 0), acct(77, 0, nil))
		put(key(a2, 1), acct(5, 0, nil))
		put(key(l1, 2), acct(9, 12, a1.BytesBE()))
		put([]byte("MainnetGAS"), leInt(91))
		if c.V < 17000 {
			put([]byte("netmapScriptHash"), d.fake[0].BytesBE())
			put([]byte("containerScriptHash"), d.fake[1].BytesBE())
		}
		ex = append(ex, upExpect{method: "totalSupply", want: "i91"},
			upExpect{method: "balanceOf", args: []any{a1}, want: "i77", note: "A1"}, upExpect{method: "balanceOf", args: []any{a2}, want: "i5", note: "A2"},
			upExpect{method: "balanceOf", args: []any{l1}, want: "i9", note: "lock account"}, upExpect{method: "balanceOf", args: []any{util.Uint160{9}}, want: "i0", note: "unknown"})
	case "container":
		owner := OwnerID(util.Uint160{0x0c, 1})
		blob := make([]byte, 80)
		blob[0] = 0x0a
		copy(blob[6:], owner)
		blob[79] = 7
		cidA := sha256.Sum256(blob)
		cid := cidA[:]
		blob2 := append([]byte{}, blob...)
		blob2[79] = 8
		cid2A := sha256.Sum256(blob2)
		cid2 := cid2A[:]
		cnr := func(b []byte) []byte {
			return ser(stackitem.NewStruct([]stackitem.Item{stackitem.Make(b), stackitem.Make([]byte("sig")), stackitem.Make([]byte("pub")), stackitem.Make([]byte("tok"))}))
		}
		if dataVar == "unprefixed-every-first-byte" {
			// 256 legacy (un-prefixed) containers, one per value of the id's first byte: raw ids
			// share the key space with every one-letter prefix of the current layout
			var all []string
			found := map[byte]bool{}
			for nonce := 0; len(found) < 256; nonce++ {
				b := append([]byte{}, blob...)
				b[70], b[71], b[72] = byte(nonce), byte(nonce>>8), byte(nonce>>16)
				idA := sha256.Sum256(b)
				if found[idA[0]] {
					continue
				}
				found[idA[0]] = true
				id := idA[:]
				put(id, cnr(b))
				put(append(append([]byte{}, owner...), id...), id)
				all = append(all, fmt.Sprint(NX(id)))
				ex = append(ex, upExpect{method: "get", args: []any{id}, contains: Hx(b), note: fmt.Sprintf("id starting with %02x", id[0])},
					upExpect{method: "owner", args: []any{id}, want: fmt.Sprint(NX(owner)), note: fmt.Sprintf("id starting with %02x", id[0])})
			}
			ex = append(ex, upExpect{method: "count", want: "i256"},
				upExpect{method: "list", args: []any{owner}, set: true, want: fmt.Sprint(sortedStrs(all...)), note: "owner"},
				upExpect{method: "list", args: []any{[]byte{}}, set: true, want: fmt.Sprint(sortedStrs(all...)), note: "all"},
				upExpect{method: "containersOf", args: []any{owner}, set: true, want: fmt.Sprint(sortedStrs(all...)), note: "owner"})
			break
		}
		pre := func(i int) bool { return dataVar == "prefixed" || (dataVar == "mixed" && i == 1) }
		for i, p := range []struct{ id, b []byte }{{cid, blob}, {cid2, blob2}} {
			if pre(i) {
				put(append([]byte{'x'}, p.id...), cnr(p.b))
				put(append(append([]byte{'o'}, owner...), p.id...), p.id)
			} else {
				put(p.id, cnr(p.b))
				put(append(append([]byte{}, owner...), p.id...), p.id)
			}
		}
		eacl := []byte("eacl-table-bytes")
		put(append([]byte("eACL"), cid...), ser(stackitem.NewStruct([]stackitem.Item{stackitem.Make(eacl), stackitem.Make([]byte("s")), stackitem.Make([]byte("p")), stackitem.Make([]byte("t"))})))
		put(append([]byte("nnsHasAlias"), cid...), []byte("nice.container"))
		ex = append(ex, upExpect{method: "count", want: "i2"},
			upExpect{method: "get", args: []any{cid}, contains: Hx(blob), note: "cid1"}, upExpect{method: "get", args: []any{cid2}, contains: Hx(blob2), note: "cid2"},
			upExpect{method: "owner", args: []any{cid}, want: fmt.Sprint(NX(owner)), note: "cid1"}, upExpect{method: "owner", args: []any{cid2}, want: fmt.Sprint(NX(owner)), note: "cid2"},
			upExpect{method: "list", args: []any{owner}, set: true, want: fmt.Sprint(sortedStrs(fmt.Sprint(NX(cid)), fmt.Sprint(NX(cid2)))), note: "owner"},
			upExpect{method: "list", args: []any{[]byte{}}, set: true, want: fmt.Sprint(sortedStrs(fmt.Sprint(NX(cid)), fmt.Sprint(NX(cid2)))), note: "all"},
			upExpect{method: "containersOf", args: []any{owner}, set: true, want: fmt.Sprint(sortedStrs(fmt.Sprint(NX(cid)), fmt.Sprint(NX(cid2)))), note: "owner"},
			upExpect{method: "eACL", args: []any{cid}, contains: Hx(eacl), note: "cid1"},
			upExpect{method: "alias", args: []any{cid}, want: fmt.Sprint(NXs("nice.container")), note: "cid1"})
	case "netmap":
		ring := map[string]int{"ring10": 10, "ring12": 12, "ring3": 3, "ring6-gap": 6}[dataVar]
		curID := ring - 1 // the newest snapshot sits in the last slot, so every slot is in use
		vacant := map[int]bool{}
		if dataVar == "ring6-gap" {
			// a history of 4 enlarged to 6 while the newest map sat in slot 1: slots 2 and 3 have not been written yet,
			// the two oldest maps live behind the gap in slots 4 and 5
			curID = 1
			vacant[2], vacant[3] = true, true
		}
		ago := func(slot int) int { return ((curID-slot)%ring + ring) % ring }
		old := c.V < 16000
		node := func(tag byte) []byte {
			return append(append([]byte{0, 0}, DetKey(0x44, int(tag)).PublicKey().Bytes()...), tag)
		}
		snap := func(epochTag byte) []byte {
			var items []stackitem.Item
			for k := byte(0); k < 2; k++ {
				if old {
					items = append(items, stackitem.NewStruct([]stackitem.Item{stackitem.Make(node(epochTag + k))}))
				} else {
					items = append(items, stackitem.NewStruct([]stackitem.Item{stackitem.Make(node(epochTag + k)), stackitem.Make(1)}))
				}
			}
			return ser(stackitem.NewArray(items))
		}
		epoch := int64(40)
		put([]byte("snapshotCount"), leInt(int64(ring)))
		put([]byte("snapshotEpoch"), leInt(epoch))
		put([]byte("snapshotBlock"), leInt(5))
		put([]byte("snapshotCurrent"), leInt(int64(curID)))
		for i := 0; i < ring; i++ {
			// slot i holds the map published (curID - i) mod ring ticks ago
			if !vacant[i] {
				put(append([]byte("snapshot_"), byte(i)), snap(byte(10*ago(i))))
			}
		}
		cand := node(200)
		candKey := append([]byte("candidate"), cand[2:35]...)
		if old {
			put(candKey, ser(stackitem.NewStruct([]stackitem.Item{stackitem.NewStruct([]stackitem.Item{stackitem.Make(cand)}), stackitem.Make(3)})))
		} else {
			put(candKey, ser(stackitem.NewStruct([]stackitem.Item{stackitem.Make(cand), stackitem.Make(3)})))
		}
		put([]byte("configContainerFee"), leInt(1000))
		if c.V < 17000 {
			put([]byte("innerring"), ser(stackitem.NewArray(nil)))
		}
		if c.V < 19000 {
			put([]byte("balanceScriptHash"), d.fake[0].BytesBE())
			put([]byte("containerScriptHash"), d.fake[1].BytesBE())
		} else {
			put(append([]byte{'e', 0}, d.fake[0].BytesBE()...), []byte{})
			put(append([]byte{'e', 1}, d.fake[1].BytesBE()...), []byte{})
		}
		ex = append(ex, upExpect{method: "epoch", want: NI(epoch).(string)}, upExpect{method: "config", args: []any{[]byte("ContainerFee")}, want: fmt.Sprint(NX(leInt(1000))), note: "ContainerFee"},
			upExpect{method: "netmapCandidates", want: fmt.Sprint([]any{[]any{NX(cand), "i3"}})})
		for dd := 0; dd < ring; dd++ {
			if vacant[((curID-dd)%ring+ring)%ring] {
				continue
			}
			want := []any{[]any{NX(node(byte(10 * dd))), "i1"}, []any{NX(node(byte(10*dd + 1))), "i1"}}
			ex = append(ex, upExpect{method: "snapshot", args: []any{int64(dd)}, want: fmt.Sprint(want), note: fmt.Sprintf("%d ticks ago", dd)})
		}
		ex = append(ex, upExpect{method: "netmap", want: fmt.Sprint([]any{[]any{NX(node(0)), "i1"}, []any{NX(node(1)), "i1"}})})
	case "nns":
		rip := func(s string) []byte { return hash.RipeMD160([]byte(s)).BytesBE() }
		owner := util.Uint160{0x77, 1}
		tldOwner := util.Uint160{0x88, 2}
		exp := int64(root64()) + 1000*3600*24*365
		ns := func(o []byte, name string) []byte {
			var oi stackitem.Item = stackitem.Null{}
			if o != nil {
				oi = stackitem.Make(o)
			}
			return ser(stackitem.NewStruct([]stackitem.Item{oi, stackitem.Make(name), stackitem.Make(exp), stackitem.Null{}}))
		}
		rec := func(name string, typ int64, data string, id int64) []byte {
			return ser(stackitem.NewStruct([]stackitem.Item{stackitem.Make(name), stackitem.Make(typ), stackitem.Make(data), stackitem.Make(id)}))
		}
		if dataVar == "names-two-tlds" {
			// two TLDs; the owner of the first also owns a second-level name (its balance must go 2 -> 1 and tokensOf
			// must keep that name); names whose keys sort on both sides of the TLD keys
			t1, t2, u := util.Uint160{0x88, 2}, util.Uint160{0x99, 3}, util.Uint160{0x77, 1}
			owned := c.V < 18000
			put([]byte{0x00}, leInt(2))
			put([]byte{0x10}, leInt(10_0000_0000))
			bal := map[util.Uint160]int64{}
			tok := func(o util.Uint160, name string) {
				put(append([]byte{0x21}, rip(name)...), ns(o.BytesBE(), name))
				put(append(append([]byte{0x02}, o.BytesBE()...), rip(name)...), []byte(name))
				bal[o]++
			}
			for _, tl := range []struct {
				n string
				o util.Uint160
			}{{"com", t1}, {"org", t2}} {
				put(append([]byte{0x20}, tl.n...), leInt(0))
				if owned {
					tok(tl.o, tl.n)
				} else {
					put(append([]byte{0x21}, rip(tl.n)...), ns(nil, tl.n))
				}
				put(append(append(append([]byte{0x22}, rip(tl.n)...), rip(tl.n)...), rtSOA, 0), rec(tl.n, rtSOA, tl.n+" e@x.y 1 2 3 4 5", 0))
			}
			tok(t1, "aa.com")
			tok(u, "zz.org")
			tok(u, "mm.com")
			for _, n := range []string{"aa.com", "zz.org", "mm.com"} {
				put(append(append(append([]byte{0x22}, rip(n)...), rip(n)...), rtSOA, 0), rec(n, rtSOA, n+" e@x.y 1 2 3 4 5", 0))
			}
			for o, b := range bal {
				put(append([]byte{0x01}, o.BytesBE()...), leInt(b))
			}
			ex = append(ex, upExpect{method: "totalSupply", want: "i2"},
				upExpect{method: "balanceOf", args: []any{t1}, want: "i1", note: "TLD owner who also owns aa.com"},
				upExpect{method: "balanceOf", args: []any{t2}, want: "i0", note: "owner of a TLD only"},
				upExpect{method: "balanceOf", args: []any{u}, want: "i2", note: "owner of two names"},
				upExpect{method: "tokensOf", args: []any{t1}, want: fmt.Sprint([]any{NXs("aa.com")}), note: "TLD owner who also owns aa.com"},
				upExpect{method: "tokensOf", args: []any{t2}, want: fmt.Sprint([]any{}), note: "owner of a TLD only"},
				upExpect{method: "tokensOf", args: []any{u}, set: true, want: fmt.Sprint(sortedStrs(fmt.Sprint(NXs("zz.org")), fmt.Sprint(NXs("mm.com")))), note: "owner of two names"},
				upExpect{method: "ownerOf", args: []any{[]byte("aa.com")}, want: fmt.Sprint(NX(t1.BytesBE())), note: "aa.com"},
				upExpect{method: "ownerOf", args: []any{[]byte("zz.org")}, want: fmt.Sprint(NX(u.BytesBE())), note: "zz.org"},
				upExpect{method: "ownerOf", args: []any{[]byte("mm.com")}, want: fmt.Sprint(NX(u.BytesBE())), note: "mm.com"},
				upExpect{method: "roots", set: true, want: fmt.Sprint(sortedStrs(fmt.Sprint(NXs("com")), fmt.Sprint(NXs("org"))))},
				upExpect{method: "isAvailable", args: []any{"aa.com"}, want: "i0", note: "aa.com"},
				upExpect{method: "isAvailable", args: []any{"bb.org"}, want: "i1", note: "bb.org"})
			break
		}
		put([]byte{0x00}, leInt(1))
		put([]byte{0x10}, leInt(10_0000_0000))
		put(append([]byte{0x20}, "com"...), leInt(0))
		ownedTLD := c.V < 18000
		if ownedTLD {
			put(append([]byte{0x21}, rip("com")...), ns(tldOwner.BytesBE(), "com"))
			put(append([]byte{0x01}, tldOwner.BytesBE()...), leInt(1))
			put(append(append([]byte{0x02}, tldOwner.BytesBE()...), rip("com")...), []byte("com"))
		} else {
			put(append([]byte{0x21}, rip("com")...), ns(nil, "com"))
		}
		put(append([]byte{0x21}, rip("aa.com")...), ns(owner.BytesBE(), "aa.com"))
		put(append([]byte{0x01}, owner.BytesBE()...), leInt(1))
		put(append(append([]byte{0x02}, owner.BytesBE()...), rip("aa.com")...), []byte("aa.com"))
		rk := func(tok, name string, typ byte, id byte) []byte {
			return append(append(append([]byte{0x22}, rip(tok)...), rip(name)...), typ, id)
		}
		put(rk("aa.com", "aa.com", rtSOA, 0), rec("aa.com", rtSOA, "aa.com e@x.y 1 2 3 4 5", 0))
		put(rk("aa.com", "aa.com", rtTXT, 0), rec("aa.com", rtTXT, "first", 0))
		put(rk("aa.com", "aa.com", rtTXT, 1), rec("aa.com", rtTXT, "second", 1))
		put(rk("com", "com", rtSOA, 0), rec("com", rtSOA, "com e@x.y 1 2 3 4 5", 0))
		ex = append(ex, upExpect{method: "totalSupply", want: "i1"}, upExpect{method: "ownerOf", args: []any{[]byte("aa.com")}, want: fmt.Sprint(NX(owner.BytesBE())), note: "aa.com"},
			upExpect{method: "balanceOf", args: []any{owner}, want: "i1", note: "owner"}, upExpect{method: "balanceOf", args: []any{tldOwner}, want: "i0", note: "former TLD owner"},
			upExpect{method: "tokensOf", args: []any{owner}, want: fmt.Sprint([]any{NXs("aa.com")}), note: "owner"},
			upExpect{method: "getRecords", args: []any{"aa.com", int64(rtTXT)}, want: fmt.Sprint([]any{NXs("first"), NXs("second")}), note: "aa.com TXT"},
			upExpect{method: "roots", want: fmt.Sprint([]any{NXs("com")})}, upExpect{method: "isAvailable", args: []any{"aa.com"}, want: "i0", note: "aa.com"},
			upExpect{method: "isAvailable", args: []any{"bb.com"}, want: "i1", note: "bb.com"})
	case "audit":
		a := &AudDriver{nodes: []*Account{w.Members[0]}, cids: [][]byte{make([]byte, 32)}}
		blob := a.blob(audOp{e: 7, cid: 0, from: 0})
		id := a.id(7, 0, 0)
		put(id, blob)
		ex = append(ex, upExpect{method: "get", args: []any{id}, want: fmt.Sprint(NX(blob)), note: "stored result"}, upExpect{method: "list", want: fmt.Sprint([]any{NX(id)})},
			upExpect{method: "listByEpoch", args: []any{int64(7)}, want: fmt.Sprint([]any{NX(id)}), note: "epoch 7"})
	case "reputation":
		peer := []byte("peer-id-0123")
		id := append(leInt(9), peer...)
		put(append([]byte{'c'}, id...), leInt(2))
		put(append(append([]byte{'r'}, id...), leInt(1)...), []byte("v1"))
		put(append(append([]byte{'r'}, id...), leInt(2)...), []byte("v2"))
		ex = append(ex, upExpect{method: "get", args: []any{int64(9), peer}, want: fmt.Sprint([]any{NXs("v1"), NXs("v2")}), note: "epoch 9"},
			upExpect{method: "listByEpoch", args: []any{int64(9)}, want: fmt.Sprint([]any{NX(id)}), note: "epoch 9"})
	case "neofsid":
		owner := OwnerID(util.Uint160{0x1d, 1})
		k1 := DetKey(0x45, 0).PublicKey().Bytes()
		put(append(append([]byte{'o'}, owner...), k1...), []byte{1})
		if c.V < 19000 {
			put([]byte("netmapScriptHash"), d.fake[0].BytesBE())
		}
		ex = append(ex, upExpect{method: "key", args: []any{owner}, want: fmt.Sprint([]any{NX(k1)}), note: "owner"})
	case "neofs":
		var ks []stackitem.Item
		for _, k := range w.Pubs {
			ks = append(ks, stackitem.Make(k.Bytes()))
		}
		put([]byte("alphabet"), ser(stackitem.NewArray(ks)))
		put([]byte("processingScriptHash"), d.fake[0].BytesBE())
		put([]byte("configWithdrawFee"), leInt(7))
		put(append([]byte("candidates"), DetKey(0x46, 0).PublicKey().Bytes()...), []byte{1})
		if c.V >= 17000 || !strings.Contains(c.Variant, "notary=") || strings.Contains(c.Variant, "notary=absent") {
			put([]byte("notary"), []byte{0}) // the main-chain contract keeps its mode flag
		}
		ex = append(ex, upExpect{method: "config", args: []any{[]byte("WithdrawFee")}, want: fmt.Sprint(NX(leInt(7))), note: "WithdrawFee"},
			upExpect{method: "alphabetList", want: fmt.Sprint([]any{[]any{NX(w.Pubs[0].Bytes())}})},
			upExpect{method: "innerRingCandidates", want: fmt.Sprint([]any{[]any{NX(DetKey(0x46, 0).PublicKey().Bytes())}})})
	case "alphabet":
		put([]byte("netmapScriptHash"), d.fake[0].BytesBE())
		put([]byte("proxyScriptHash"), d.fake[1].BytesBE())
		put([]byte("name"), []byte("az"))
		put([]byte("index"), leInt(0))
		put([]byte("threshold"), leInt(1))
		ex = append(ex, upExpect{method: "name", want: fmt.Sprint(NXs("az"))})
	case "processing":
		put([]byte("neofsScriptHash"), d.fake[0].BytesBE())
	}
	return ex
}

func sortedStrs(s ...string) []string { sort.Strings(s); return s }

func root64() uint64 { return 1468595301000 }

// ---------- gate: update of the real contracts to a build with a bumped version ----------

type gateCase struct {
	Contract string
	Signer   string
}

type GateGrid struct {
	N      int
	auth   *AuthGrid
	bumped string // scratch tree with patch+1 ("" = the version constant was not found: rows not covered)
}

func NewGateGrid(n int) *GateGrid { return &GateGrid{N: n} }
func (d *GateGrid) Name() string  { return fmt.Sprintf("upgrade-gate-n%d", d.N) }
func (d *GateGrid) Rule() string {
	return "11 contracts deployed from the tree x signer sets {stranger, one member, Alphabet 2/3+1, committee majority} updating to a build of the same tree with the patch version +1: majority => HALT, version()+1, read API unchanged; otherwise FAULT with an empty diff; non-trivial = all; distinct by case"
}

var bumpedTree string

// bumpedRepo copies the tree under test to a scratch directory with common.Version + 1.
func bumpedRepo() string {
	compMu.Lock()
	defer compMu.Unlock()
	if bumpedTree != "" {
		return bumpedTree
	}
	dst, err := os.MkdirTemp("", "verif-c16-tree-")
	if err != nil {
		hpanic("mktemp: %v", err)
	}
	for _, sub := range []string{"go.mod", "go.sum", "common", "contracts", "rpc"} {
		copyTree(filepath.Join(Repo, sub), filepath.Join(dst, sub))
	}
	vf := filepath.Join(dst, "common", "version.go")
	b, err := os.ReadFile(vf)
	if err != nil {
		hpanic("version.go: %v", err)
	}
	re := regexp.MustCompile(`(?m)^(\s*patch\s*=\s*)(\d+)`)
	m := re.FindSubmatch(b)
	if m == nil {
		bumpedTree = "-"
		return bumpedTree
	}
	p, _ := strconv.Atoi(string(m[2]))
	b = re.ReplaceAll(b, []byte("${1}"+strconv.Itoa(p+1)))
	if err := os.WriteFile(vf, b, 0o644); err != nil {
		hpanic("write version.go: %v", err)
	}
	bumpedTree = dst
	return dst
}

// CleanupScratch removes scratch trees created by this process.
func CleanupScratch() {
	if bumpedTree != "" && bumpedTree != "-" {
		os.RemoveAll(bumpedTree)
	}
}

func copyTree(src, dst string) {
	st, err := os.Stat(src)
	if err != nil {
		return
	}
	if !st.IsDir() {
		b, err := os.ReadFile(src)
		if err != nil {
			hpanic("copy: %v", err)
		}
		os.MkdirAll(filepath.Dir(dst), 0o755)
		if err := os.WriteFile(dst, b, 0o644); err != nil {
			hpanic("copy: %v", err)
		}
		return
	}
	es, _ := os.ReadDir(src)
	for _, e := range es {
		if e.Name() == "testdata" || e.Name() == ".git" {
			continue
		}
		copyTree(filepath.Join(src, e.Name()), filepath.Join(dst, e.Name()))
	}
}

func (d *GateGrid) Build() *World {
	d.auth = NewAuthGrid(d.N)
	return d.auth.Build()
}

func (d *GateGrid) Cases(string) []GridCase {
	var out []GridCase
	for _, c := range c16Targets {
		for _, s := range []string{"S", "M1", "AL", "CM"} {
			out = append(out, GridCase{Name: fmt.Sprintf("update %s to version+1 by %s", c, s), Data: gateCase{c, s}})
		}
		if c == "neofs" || c == "processing" {
			// the main-chain contracts follow the NeoFSAlphabet role: in the block right after the role
			// changed hands only the new Alphabet's majority may update
			for _, s := range []string{"rotated:new", "rotated:old"} {
				out = append(out, GridCase{Name: fmt.Sprintf("update %s to version+1 by %s Alphabet majority", c, s), Data: gateCase{c, s}})
			}
		}
	}
	return out
}

// a fixed set of read calls per contract: the read API must answer the same before and after
var gateReads = map[string][][]any{
	"balance":    {{"totalSupply"}, {"decimals"}, {"symbol"}},
	"netmap":     {{"epoch"}, {"netmap"}, {"netmapCandidates"}, {"listConfig"}, {"snapshot", int64(1)}, {"listCandidates"}},
	"container":  {{"count"}, {"list", []byte{}}},
	"nns":        {{"totalSupply"}, {"roots"}, {"tokens"}, {"getRecords", "uu.com", int64(16)}, {"ownerOf", []byte("uu.com")}},
	"neofs":      {{"alphabetList"}, {"listConfig"}, {"innerRingCandidates"}},
	"neofsid":    {},
	"audit":      {{"list"}},
	"reputation": {{"listByEpoch", int64(1)}},
	"alphabet":   {{"name"}, {"gas"}},
	"proxy":      {},
	"processing": {},
}

func (d *GateGrid) Eval(x *Exec, root *Node, gc GridCase) GridResult {
	w := x.W
	c := gc.Data.(gateCase)
	tree := bumpedRepo()
	if tree == "-" {
		return GridResult{Outcome: "not-covered:version-constant-not-found"}
	}
	_, cur := repoVersions()
	h := w.Contracts[c.Contract].Hash
	nb, mb := CompileDir(tree, c.Contract).Bytes()
	var signers []util.Uint160
	var adv uint32
	rotated := strings.HasPrefix(c.Signer, "rotated:")
	if rotated {
		rm := w.E.NativeHash(w.T, nativenames.Designation)
		po, pn := x.Do(root, Call{Script: Script(rm, "designateAsRole", int64(16), []any{d.auth.aud.Pub()}), Signers: []util.Uint160{w.Comm}, Label: "re-designate the NeoFSAlphabet role"})
		if !po.Halt {
			hpanic("C16 re-designation: %s", po.Fault)
		}
		root, adv = pn, 1
		if c.Signer == "rotated:new" {
			signers = []util.Uint160{d.auth.audMulti}
		} else {
			signers = []util.Uint160{w.Comm}
		}
	} else {
		signers = d.auth.witnesses(w, c.Signer, nil)
	}
	where := map[string]any{"n": d.N, "contract": c.Contract, "signers": c.Signer}
	var vs []*Violation
	reads := func(n *Node) string {
		var sb strings.Builder
		for _, call := range gateReads[c.Contract] {
			r := w.Read(n.L, n.H, n.TS, h, call[0].(string), call[1:]...)
			fmt.Fprintf(&sb, "%v=%v|%v;", call[0], r.Ret0(), r.Halt)
		}
		if c.Contract == "container" {
			for _, m := range []string{"get", "owner", "eACL", "alias", "replicasNumbers"} {
				for _, id := range [][]byte{d.auth.cid, d.auth.cidPlain} {
					r := w.Read(n.L, n.H, n.TS, h, m, id)
					fmt.Fprintf(&sb, "%s=%v;", m, r.Ret0())
				}
			}
			// the roster (committed and its raw pending part), the owner index, the size estimations
			for _, call := range [][]any{{"nodes", d.auth.cid, int64(0)}, {"containersOf", d.auth.ownerID}, {"list", d.auth.ownerID},
				{"iterateAllContainerSizes", int64(2)}, {"iterateContainerSizes", int64(2), d.auth.cid}, {"listContainerSizes", int64(2)}} {
				r := w.Read(n.L, n.H, n.TS, h, call[0].(string), call[1:]...)
				fmt.Fprintf(&sb, "%v=%v|%v;", call[0], r.Ret0(), r.Halt)
			}
			for _, kv := range w.Dump(n.L, "container") {
				if len(kv.K) > 0 && (kv.K[0] == 'u' || kv.K[0] == 'n' || kv.K[0] == 'r' || kv.K[0] == 'm' || kv.K[0] == 'd') {
					fmt.Fprintf(&sb, "%x=%x;", kv.K, kv.V)
				}
			}
		}
		if c.Contract == "balance" {
			for _, a := range []util.Uint160{d.auth.u.Hash, d.auth.lockAcc, d.auth.s.Hash} {
				r := w.Read(n.L, n.H, n.TS, h, "balanceOf", a)
				fmt.Fprintf(&sb, "balanceOf=%v;", r.Ret0())
			}
		}
		if c.Contract == "netmap" {
			for _, call := range [][]any{{"listNodes"}, {"listNodes", int64(2)}, {"listNodes", int64(1)}, {"snapshotByEpoch", int64(1)}, {"snapshot", int64(0)}, {"config", []byte("ContainerFee")}, {"lastEpochBlock"}} {
				r := w.Read(n.L, n.H, n.TS, h, call[0].(string), call[1:]...)
				fmt.Fprintf(&sb, "%v%v=%v|%v;", call[0], call[1:], r.Ret0(), r.Halt)
			}
		}
		if c.Contract == "nns" {
			for _, call := range [][]any{{"properties", []byte("uu.com")}, {"resolve", "uu.com", int64(16)}, {"getAllRecords", "uu.com"}, {"balanceOf", d.auth.u.Hash}, {"tokensOf", d.auth.u.Hash}, {"isAvailable", "uu.com"}} {
				r := w.Read(n.L, n.H, n.TS, h, call[0].(string), call[1:]...)
				fmt.Fprintf(&sb, "%v=%v|%v;", call[0], r.Ret0(), r.Halt)
			}
		}
		if c.Contract == "neofsid" {
			r := w.Read(n.L, n.H, n.TS, h, "key", d.auth.ownerID)
			fmt.Fprintf(&sb, "key=%v;", r.Ret0())
		}
		return sb.String()
	}
	before := reads(root)
	o, after := x.Do(root, Call{Script: Script(h, "update", nb, mb, nil), Signers: signers, Adv: adv, Label: gc.Name})
	authorised := c.Signer == "CM" || (c.Signer == "AL" && w.Alpha == w.Comm) || c.Signer == "rotated:new"
	out := "refused"
	if authorised {
		out = "upgraded"
		if !o.Halt {
			vs = append(vs, Viol("majority-update-refused", fmt.Sprintf("%s: %s", gc.Name, o.Fault), where))
		} else {
			if r := w.Read(after.L, after.H, after.TS, h, "version"); !Same(r.Ret0(), NI(cur+1)) {
				vs = append(vs, Viol("version-not-advanced", fmt.Sprintf("%s: version() = %v, expected %d", gc.Name, r.Stack, cur+1), where))
			}
			if a := reads(after); a != before {
				vs = append(vs, Viol("data-not-preserved", fmt.Sprintf("%s: read API before: %.400s | after: %.400s", gc.Name, before, a), where))
			}
		}
	} else if o.Halt || len(DiffDumps(w.FullDump(root.L), w.FullDump(after.L))) > 0 {
		vs = append(vs, Viol("update-without-majority", fmt.Sprintf("%s: halt=%v", gc.Name, o.Halt), where))
	}
	return GridResult{Outcome: out, Nontrivial: true, V: vs}
}

// votingContracts: contracts whose legacy (pre-Notary) versions collected votes, i.e. whose
// migration consults the ballots (read off the sources: they call common.TryPurgeVotes).
func votingContracts() map[string]bool {
	out := map[string]bool{}
	for _, c := range c16Targets {
		b, err := os.ReadFile(filepath.Join(Repo, "contracts", c, "contract.go"))
		if err == nil && strings.Contains(string(b), "TryPurgeVotes") {
			out[c] = true
		}
	}
	return out
}
