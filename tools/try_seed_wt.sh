#!/bin/bash
# tools/try_seed_wt.sh <patch.diff> <Cxx> [<Cxx>...]   like try_seed.sh, but on a scratch worktree of /repo
# (VERIF_REPO), so that /repo itself stays untouched while a long run is reading it. The evidence files
# the run writes are restored from git afterwards.
set -u
patch=$(readlink -f $1); shift
wt=/tmp/ts-$$
git -C /repo worktree add -q --detach $wt HEAD || exit 2
trap 'git -C /repo worktree remove --force '$wt EXIT
git -C $wt apply "$patch" || { echo "patch does not apply"; exit 2; }
for c in "$@"; do
	echo "=== $c on $(basename $(dirname $patch))"
	(cd /verif && VERIF_EVIDENCE_DIR=/tmp/seed-evidence VERIF_REPO=$wt ./run.sh $c ${TIER:-quick} 2>&1 | grep -v "^  path" | cut -c1-300 | tail -${LINES_OUT:-4})
done
