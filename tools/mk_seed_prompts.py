#!/usr/bin/env python3
"""tools/mk_seed_prompts.py <round> <outdir>   write one sub-agent prompt per property: the property text, the scratch
worktree to use, the delivery layout, and one-line summaries of the changes already kept for that property (so that a new
change goes for another clause). Nothing about the checks themselves is handed out."""
import json, glob, os, re, sys
rnd, out = sys.argv[1], sys.argv[2]
hint = sys.argv[3] if len(sys.argv) > 3 else ""
os.makedirs(out, exist_ok=True)
for l in open("/verif/properties.jsonl"):
    p = json.loads(l); pid = p["id"]
    have = []
    for d in sorted(glob.glob("/verif/seeded/%s-*" % pid), key=lambda d: int(d.rsplit("-", 1)[1])):
        m = json.load(open(d + "/meta.json"))
        have.append("- " + re.sub(r"\s+", " ", str(m.get("summary", "")))[:260])
    wt = "/tmp/w%s-%s" % (rnd, pid)
    txt = f"""You are helping to evaluate a verification effort for the Go repository nspcc-dev/neofs-contract (NeoFS smart contracts for the neo-go compiler, plus a committee-coordinated deployment orchestrator in deploy/ and generated RPC bindings in rpc/).
Work ONLY inside your own scratch git worktree {wt} (already created). Never touch /repo or /verif, and do not read anything under /verif.

Every shell call needs: export GOFLAGS=-mod=mod GOPROXY=off GOSUMDB=off GOTOOLCHAIN=local   (there is no network; nothing can be downloaded).
The existing test suite: cd {wt} && go test -vet=off -count=1 ./...   (about 1-2 minutes; it must still pass with your change applied).
If you change a contract source under contracts/<name>/, note that the tests in tests/ compile contracts from source, while contracts/<name>/contract.nef, manifest.json and rpc/<name>/rpcbinding.go are shipped build artefacts.

The property (a semantic property users rely on):

id: {pid}
title: {p['title']}
statement: {p['statement']}
quantified over: {p['quantifier']['text']}
why the existing tests cannot settle it: {p['why_tests_cant']}
code it is anchored in: {json.dumps(p['anchors'])}

Your task: produce TWO different, realistic changes to the repository (each the kind of slip or well-meant refactoring a maintainer could make and a reviewer could wave through), each of which
 1. BREAKS the property above (some clause of the statement, inside its quantifier),
 2. still compiles, and the whole existing test suite still passes with it,
 3. needs something SPECIFIC to manifest: a multi-step sequence of operations, an unusual or boundary input, a particular committee size / configuration, a particular interleaving, crash point or timing, or two cooperating sites that each look fine alone. NOT something ordinary use exposes at once, and not a change that breaks every call of a method.
For each change write a demonstration: a Go test (function name must start with TestSeeded, normally in package tests, file tests/seeded_demo_test.go; another package is fine if you name the path in meta.json as demo_location) that FAILS with the change applied and PASSES on the unchanged tree. Look at the existing tests in tests/ for how contracts are deployed and invoked with neotest.

{hint}
Changes already collected for this property (do NOT repeat these or trivial variants; go for another clause, method, code path, boundary or configuration):
{chr(10).join(have) if have else '- none'}

Deliver, for k = 1 and 2, the directory {wt}/.seeded/<k>/ containing
  patch.diff     - output of `git diff` for the change alone (applies to the clean worktree with `git apply`; must not contain the demo test)
  demo_test.go   - the demonstration test file alone
  meta.json      - {{"property": "{pid}", "summary": "<what was changed, where, and how it looks innocent>", "breaks": "<which clause, and the observable wrong behaviour>", "needs": "<what is needed for it to manifest>", "demo_location": "tests/seeded_demo_test.go", "verified": {{"suite_passes_with_patch": true, "demo_fails_with_patch": true, "demo_passes_without_patch": true}}}}
Verify all three facts yourself for each change before writing "verified" (run the demo with `go test -vet=off -count=1 ./tests/ -run TestSeeded`), and leave the worktree clean (git checkout -- . ; remove the demo file) apart from the .seeded directory. Work on the two changes one at a time so that their diffs do not mix; toggle a change with `git apply` / `git apply -R` of a saved patch file, never with `git stash` (the stash is shared by all worktrees of the repository). Do not commit anything. Finish with a three-line summary of each change.
"""
    open("%s/%s.txt" % (out, pid), "w").write(txt)
print("ok")
