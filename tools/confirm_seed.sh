#!/bin/bash
# tools/confirm_seed.sh <worktree> <k> <dest-id>   confirm a sub-agent's seeded change in its scratch worktree and keep it under /verif/seeded/<dest-id>
set -u
wt=$1; k=$2; dest=/verif/seeded/$3
export GOFLAGS=-mod=mod GOPROXY=off GOSUMDB=off GOTOOLCHAIN=local
cd $wt || exit 2
git checkout -q -- . ; git clean -fdq -e .seeded
s=$wt/.seeded/$k
loc=$(python3 -c "import json;print(json.load(open('$s/meta.json')).get('demo_location','tests/seeded_demo_test.go'))")
case "$loc" in *_test.go) ;; *) loc=tests/seeded_demo_test.go;; esac
pkg=./$(dirname $loc)/
cp $s/demo_test.go $loc
run_demo() { go test -vet=off -count=1 $pkg -run 'Seeded' >/tmp/demo.$$ 2>&1; echo $?; }
without=$(run_demo)
git apply $s/patch.diff || { echo "patch does not apply"; exit 2; }
with=$(run_demo)
rm -f $loc
go test -vet=off -count=1 ./... >/tmp/suite.$$ 2>&1; suite=$?
git checkout -q -- . ; git clean -fdq -e .seeded
echo "demo_without_patch_exit=$without demo_with_patch_exit=$with suite_with_patch_exit=$suite"
if [ "$without" = 0 ] && [ "$with" != 0 ] && [ "$suite" = 0 ]; then
	mkdir -p $dest
	cp $s/patch.diff $dest/patch.diff
	cp $s/demo_test.go $dest/demo_test.go
	python3 - "$s/meta.json" "$dest/meta.json" "$loc" <<'PY'
import json,sys
m=json.load(open(sys.argv[1]))
m['demo_location']=sys.argv[3]
m['confirmed_by_me']={"how":"tools/confirm_seed.sh in the agent's scratch worktree: demo without patch exit 0, demo with patch exit !=0, full suite (go test -vet=off -count=1 ./...) with patch exit 0"}
json.dump(m,open(sys.argv[2],'w'),indent=1)
PY
	echo "KEPT $dest"
else
	echo "REJECTED"; tail -5 /tmp/demo.$$ /tmp/suite.$$
fi
rm -f /tmp/demo.$$ /tmp/suite.$$
