#!/usr/bin/env python3
"""Rewrites the seeded-change table in DESIGN.md (between the SEEDED-TABLE markers) from
seeded/*/meta.json and seeded/RESULTS.md."""
import json, glob, os, re

NOTES = {
 "C14-22": "missed at first: containers whose vector 0 has one member under REP 2 and 3 (every matrix must be refused)",
 "C15-21": "missed at first (the difference sits in a read path, storage and outcomes agree): the dual-world comparison now also compares a digest of everything the drivers read back per transition",
 "C15-22": "missed at first: a sixth clause - the result of one GetFS/GetMain call is edited in place, the next call must still return the shipped bytes",
 "C01-19": "missed at first (needs a lock address that sorts before its owner's and an owner record that holds nothing): in balance-emptied-accounts two of the three lock addresses now sort before every owner, zero-amount transfers added",
 "C01-20": "missed at first: the all-zero hash as receiver and as mint target",
 "C02-19": "missed at first: a contract that refuses payments (its onNEP17Payment faults) as receiver",
 "C03-19": "missed at first: row 'subscribeForNewEpoch(caller) called by the would-be subscriber itself' (a contract anybody can deploy)",
 "C07-20": "missed at first (the trigger is a network setting): setConfig(MaintenanceModeAllowed, 0/1) is part of the candidate exploration",
 "C08-19": "missed at first: every fifth epoch of the histories is published with nobody in it (an empty map has to overwrite what its ring slot held)",
 "C09-19": "missed at first: a lock made from a lock account, the inner address sorting before the outer one, both due at one tick",
 "C12-19": "missed at first: a CNAME target in fully qualified form (trailing dot) must be refused",
 "C12-20": "missed at first: a TXT value that the alias holds too (resolve lists both)",
 "C13-21": "not reported: in the harness the leader's regeneration loop after its 150-round absence lasts about 20 rounds and ends, every run terminates with the oracle satisfied (the statement demands termination, not a duration); the sub-agent's demonstration, on a chain with sockets between the members, never leaves the loop. The schedules it needs (a member cancelled 1..10 rounds before the designation and restarted 150 rounds later) are now in the quick tier",
 "C14-19": "missed at first: epoch ticks (through Netmap and Container's own handler) between batches and before the commit",
 "C16-23": "missed at first: the recorded NNS dump updated eight years after the chain's start (names and top-level names run out)",
 "C17-19": "missed at first: fifth exploration neofs-votes-callers, votes forwarded by a contract that assembles the decision id from two halves (a Buffer)",
 "C17-20": "missed at first: in the same exploration a cheque whose payee is a contract that presents the cheque again from its payment callback",
 "C19-20": "missed at first: a 20-byte receiver that begins with the two bytes of the contract's own fee marker, and a 3-byte value that begins like it",
 "C20-19": "missed at first: the container is removed while estimations for it are fresh",
 "C02-17": "missed at first: the data argument of the public transfer was always null; byte string, integer and array added under every signer set",
 "C02-18": "missed by C02 at first (C01 had the call): payments into a live lock account and into the address the next lock will use",
 "C06-17": "missed at first (needs an empty candidate set on a ring slot that holds an older map: 13 steps with ten maps): fourth exploration netmap-tick-short-history on a Netmap that keeps two maps",
 "C09-18": "missed at first (needs more than 32 locks due at one tick): second exploration balance-locks-many, 40 locks made by one transaction",
 "C12-17": "missed at first: a record two labels below the name being registered (three below its token)",
 "C14-17": "missed at first: commitContainerListUpdate with Null instead of an empty array while keys are pending",
 "C19-18": "missed by C19 at first (C17's statement covers it): vote-collected ledger on three stored keys (2/3+1 = 3, two thirds rounded = 2)",
 "C20-16": "missed at first: an outsider's audit result witnessed by its author and by an Inner Ring member",
 "C02-15": "missed at first: balance.newEpoch forwarded by a contract anybody can deploy (the probe), signed by a stranger, the holder, the Alphabet",
 "C03-15": "missed at first: row 'nns.transfer to the current owner itself'",
 "C11-15": "missed by C11 at first (C10 had the call): the one-argument renew under every signer set",
 "C03-13": "missed at first: rows 'setAdmin of a name that has an administrator' with the administrator alone and with the administrator plus the new one",
 "C02-13": "ended as a harness error at first (Balance could not be deployed): deployments are co-signed by the chain's validators too, and the validators' account is tried as a signer of every Alphabet-only method",
 "C13-17": "missed at first: 150-round sleeps also placed one, two and three rounds before the default designation round",
 "C13-15": "missed at first (needs three simultaneous deviations on four members): schedule shape early-signer-leaves added (one member signs the designation and goes away, the others sleep through the validity window of the shared data)",
 "C19-12": "missed at first (needs a decision pending ahead of the cheque and a fourth, late vote: depth 6): seventh ledger exploration neofs-gas-legacy-n4-votes over the vote-collected decisions only, depth 7",
 "C04-11": "missed at first: a container whose length byte in front of the owner is 128",
 "C03-12": "ended as a harness error at first (Container could not be deployed on an even committee): a refused deployment during base-state preparation is the '... succeeds' clause failing, as a refused invocation already was",
 "C05-11": "missed at first: history 'the same container put again' added",
 "C20-9": "missed at first (needs 128 values for one (epoch, peer)): a bulk operation of 130 puts added",
 "C01-9": "missed at first (needs depth 5 from the empty state): second exploration balance-emptied-accounts with a small alphabet, depth 6",
 "C16-12": "missed at first: update data with the caller's own integer in front of the appended version (decoy)",
 "C16-13": "missed at first: legacy ring with a gap (history enlarged from 4 to 6, slots 2 and 3 not written yet)",
 "C04-10": "missed at first: a domain of the alias zone registered in advance by the committee, two containers asking for it",
 "C11-9": "missed at first: an owner who appoints itself administrator, then transfers",
 "C06-9": "missed by C06 at first (C08 caught it): third exploration netmap-tick-long-history on a Netmap that keeps 256 maps",
 "C03-8": "missed at first: a name with an administrator and the row 'sub-name for the parent's owner, signed by the administrator alone' added to C03; the same calls added to C11",
 "C09-7": "missed at first (needs two owners without an account record released by one tick): whole-balance locks of two owners added",
 "C10-8": "missed at first (needs a receiver that transfers the name on from inside onNEP11Payment): forwarding receiver contract added",
 "C11-7": "missed at first (needs three registered levels, the middle one expiring first): exploration nns-auth-midlevel-expiry added",
 "C15-8": "missed at first (the difference sits in the update hook): the upgrade grid is run once to the sources and once to the shipped executable",
 "C08-7": "missed at first (needs count 256 and more than 128 epochs): long linear histories added (tick^p, resize, tick^300) - they also exposed the count > 256 defect fixed in f20fb53",
 "C16-11": "missed at first: ballot lists with several entries, the live one not last",
 "C17-8": "missed at first (needs three pending ballots): the timing exploration votes for three ids",
 "C19-9": "caught through the user who is one unit short of the fees (added after the clause review)",
 "C14-7": "caught through the rosters that list a member twice (added after the clause review)",
 "C11-6": "missed by C11 at first (C10 caught it): registration of a fresh second-level name for an owner that does not witness (an account, a deployed contract)",
 "C03-5": "missed by C03 at first (C19 caught it): emit row right after the Inner Ring went to somebody else; the ring member as a signer set",
 "C05-5": "missed at first: grids on chains whose Inner Ring is larger than the Alphabet; preparatory puts are judged too",
 "C06-5": "missed at first: epoch jumps by x256 (numbers whose encodings are byte shifts of one another)",
 "C12-5": "missed at first: CNAME adds on a sub-name that is not registered itself",
 "C14-6": "missed at first: valid signatures by members of the other placement vector in the symbol menu",
 "C16-7": "missed at first: 256 legacy containers / accounts, one per first byte of the raw key",
 "C17-6": "missed at first (needs 5 steps with two waits): dedicated two-ballot timing exploration to depth 6/8",
 "C20-6": "setup of the estimations world refused first (harness error): the parts of a multi-part check now run independently, the configuration part reports it",
 "C15-5": "consequential version mismatches collapsed into one violation",
 "C02-2": "C02 world was n=1: strengthened to n=3 with majority-signer ops",
 "C03-1": "preparation step refused: now reported as C03's 'required witness succeeds' clause",
 "C03-2": "row added for a live container without the meta flag",
 "C03-4": "missed at first: rows placed in the block right after the role changed hands were added",
 "C04-2": "putNamed('', '') ops added",
 "C06-4": "missed at first (Balance's own check masked it): second exploration on a bare 3-key Netmap world",
 "C07-4": "C07 world moved to a 3-key committee with majority signers",
 "C11-2": "depth 4 needed: two names pre-registered",
 "C11-3": "missed at first: even-committee (n=4) exploration with a half-size multisig added",
 "C12-2": "missed at first: nns-midlevel-expiry exploration added",
 "C12-4": "missed at first: deleteRecords on the list at capacity added",
 "C17-1": "missed at first: model state is now part of every dedup key (DESIGN 12)",
 "C17-2": "missed at first: shrinking alphabetUpdate added",
 "C19-1": "first caught only by C17; C19's ledgers without Notary now run vote-collected cheques/setConfig/removals on 2 and 4 stored keys",
 "C19-4": "missed at first: Alphabet contract with an index beyond the committee added",
 "C02-3": "missed at first: contract-owned accounts (the token's own hash) as `from` added",
 "C05-3": "missed at first: history 'fee lowered to zero between puts' added",
 "C16-5": "caught by C03 first; gate cases right after a role rotation added to C16",
 "C20-1": "violation class made deterministic (sorted read-back)",
 "C20-3": "missed at first: nodes that joined / left with the latest tick added (previous vs current map)",
}

res = {}
if os.path.exists("/verif/seeded/RESULTS.md"):
    for l in open("/verif/seeded/RESULTS.md"):
        m = re.match(r"\| (C\d+-\d+) \| (C\d+) \| (\d) \|", l)
        if m:
            res.setdefault(m.group(1), []).append((m.group(2), m.group(3)))

rows = ["| change | what it does (agent's summary, abridged) | needs | quick checks: exit | note |", "|---|---|---|---|---|"]
def key(d):
    b = os.path.basename(d); p, k = b.split("-"); return (p, int(k))
for d in sorted(glob.glob("/verif/seeded/C*-*"), key=key):
    mid = os.path.basename(d)
    m = json.load(open(d + "/meta.json"))
    cut = lambda s, n: re.sub(r"\s+", " ", str(s)).replace("|", "/")[:n]
    r = ", ".join("%s: %s" % (c, {"1": "VIOLATION", "0": "missed", "2": "harness error"}.get(e, e)) for c, e in res.get(mid, [])) or "not run"
    rows.append("| %s | %s | %s | %s | %s |" % (mid, cut(m.get("summary", ""), 120), cut(m.get("needs", ""), 100), r, NOTES.get(mid, "")))

p = "/verif/DESIGN.md"
s = open(p).read()
a, b = s.index("<!-- SEEDED-TABLE-BEGIN -->"), s.index("<!-- SEEDED-TABLE-END -->")
s = s[:a] + "<!-- SEEDED-TABLE-BEGIN -->\n" + "\n".join(rows) + "\n" + s[b:]
open(p, "w").write(s)
print(len(rows) - 2, "rows")
