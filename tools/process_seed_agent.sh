#!/bin/bash
# tools/process_seed_agent.sh <worktree> <Cxx>   confirm the two changes a sub-agent left in <worktree>/.seeded/{1,2}, keep the
# confirmed ones under the next free ids of <Cxx>, remove the worktree, and run the property's quick check against each
set -u
wt=$1; p=$2
cd /verif
last=$(ls seeded | grep "^$p-" | sed "s/^$p-//" | sort -n | tail -n 1)
next=$(( ${last:-0} + 1 ))
kept=()
for k in 1 2; do
	[ -d $wt/.seeded/$k ] || continue
	id=$p-$next
	if tools/confirm_seed.sh $wt $k $id 2>&1 | grep -q "^KEPT"; then kept+=($id); next=$((next+1)); else echo "REJECTED $wt change $k"; fi
done
git -C /repo worktree remove --force $wt
for id in "${kept[@]}"; do
	log=/tmp/try-$id.log
	tools/try_seed_wt.sh seeded/$id/patch.diff $p > $log 2>&1
	n=$(grep -c '^VIOLATION' $log)
	cls=$(grep -B1 '^VIOLATION' $log | head -n 1 | sed 's/^ *//' | cut -d' ' -f1)
	if [ "$n" -gt 0 ]; then echo "| $id | $p | 1 | $cls |" > seeded/$id/result.row; elif grep -q "HARNESS ERROR" $log; then echo "| $id | $p | 2 | |" > seeded/$id/result.row; else echo "| $id | $p | 0 | |" > seeded/$id/result.row; fi
	echo "## $id violations=$n $(grep -B1 '^VIOLATION' $log | head -n 1 | cut -c1-220)"
done
