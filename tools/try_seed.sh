#!/bin/bash
# tools/try_seed.sh <patch.diff> <Cxx> [<Cxx>...]   apply a seeded change to /repo, run the quick checks, undo it.
set -u
patch=$1; shift
cd /repo || exit 2
if [ -n "$(git status --porcelain)" ]; then echo "/repo is not clean"; exit 2; fi
git apply "$patch" || { echo "patch does not apply"; exit 2; }
trap 'git -C /repo checkout -- . ; git -C /repo clean -fdq' EXIT
for c in "$@"; do
	echo "=== $c on $(basename $(dirname $patch))"
	(cd /verif && VERIF_EVIDENCE_DIR=/tmp/seed-evidence ./run.sh $c ${TIER:-quick} 2>&1 | grep -v "^  path" | cut -c1-300 | tail -${LINES_OUT:-6})
	echo "exit=$?"
done
