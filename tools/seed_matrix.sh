#!/bin/bash
# tools/seed_matrix.sh [ids...]   run the kept seeded changes (all of them, or the ones named) against the quick check of
# their property (plus the cross-checks listed in seeded/<id>/also), keep each change's rows in seeded/<id>/result.row and
# rebuild seeded/RESULTS.md from the rows of all changes. JOBS changes run side by side (default 4), each on its own
# scratch worktree of /repo's HEAD.
set -u
cd /verif
ids=("$@")
[ ${#ids[@]} -eq 0 ] && ids=($(ls seeded | grep -E '^C[0-9]+' | sort -t- -k1,1 -k2,2n))
out=seeded/RESULTS.md
rows=$(mktemp -d /tmp/sm-rows.XXXXXX)
one() {
	id=$1; rows=$2
	prop=${id%%-*}
	checks=$prop
	[ -f seeded/$id/also ] && checks="$prop $(cat seeded/$id/also)"
	# the change is applied to a scratch worktree of /repo's HEAD (VERIF_REPO), so /repo stays untouched
	wt=/tmp/sm-$id; git -C /repo worktree add -q --detach $wt HEAD || { echo "| $id | - | worktree failed | |" > $rows/$id; return; }
	if ! git -C $wt apply /verif/seeded/$id/patch.diff; then
		echo "| $id | - | patch does not apply | |" > $rows/$id; git -C /repo worktree remove --force $wt; return
	fi
	: > $rows/$id
	for c in $checks; do
		log=$(mktemp)
		VERIF_EVIDENCE_DIR=/tmp/seed-evidence/$id VERIF_REPO=$wt ./run.sh $c quick > $log 2>&1; rc=$?
		cls=$(grep -v "^  path:\|^  schedule:" $log | grep -B1 "^VIOLATION" | grep -v "^VIOLATION\|^--" | head -1 | sed 's/^ *//' | cut -d' ' -f1)
		echo "| $id | $c | $rc | ${cls:-} |" >> $rows/$id
		rm -f $log
	done
	git -C /repo worktree remove --force $wt
	rm -rf /tmp/seed-evidence/$id
}
export -f one
printf "%s\n" "${ids[@]}" | xargs -P ${JOBS:-4} -I{} bash -c 'one {} '$rows
for id in "${ids[@]}"; do cp $rows/$id seeded/$id/result.row; done
all=($(ls seeded | grep -E '^C[0-9]+' | sort -t- -k1,1 -k2,2n))
{ echo "# Seeded changes against the quick checks"; echo; echo "Rebuilt by tools/seed_matrix.sh on $(date -u +%F) at /repo $(git -C /repo log --format=%h -1) from the rows kept per change (seeded/<id>/result.row, written when that change was last run). exit 1 = VIOLATION reported, 0 = missed, 2 = harness error."; echo; echo "| change | check | exit | first violation class |"; echo "|---|---|---|---|"; for id in "${all[@]}"; do [ -f seeded/$id/result.row ] && cat seeded/$id/result.row || echo "| $id | - | not run | |"; done; } > $out
rm -rf $rows
grep -c "| 1 |" $out; grep "| 0 |\|| 2 |\|apply\|failed" $out
